"""Semantics-preserving AST normalisations that run before the program is indexed (driver: ``normalise``).

The rules are written against the shapes of the pinned tree.  Refactorings replace those shapes by equivalent ones; the
passes below undo the most common of them, each only where the rewrite is exact, so that the rules (and the helper
inliner of inline.py, with which they are iterated to a fixpoint) see the canonical shape again:

  starargs      f(*t)  with  t = (a, b, c)  assigned once from unmodified names   ->  f(a, b, c)
  tuple split   (x, y) = (e1, e2)  with no xi read in any ej                      ->  x = e1; y = e2
  dedispatch    h = D.get(k) / h = D[k] (in try/except KeyError) for a constant dict display D with constant keys
                                                                                  ->  if k == k1: h = v1 elif ... else ...
  unroll        for x in (c1, c2, ...) over a short constant tuple/list of constants, lambdas or tuples of those,
                body without break/continue                                       ->  the body repeated with x bound
                (calls of a bound lambda are beta-reduced, getattr(o, 'name') becomes o.name)
  thread        S; R...  where S is an if / try(no finally) whose every falling-through tail ends by giving a local v
                a known constant / not-None value, and R starts (within its first statements) with an `if` on v
                                                                                  ->  R is copied into each tail and the
                test on v is folded there (tail duplication; statements after a try are its else-clause)
  callee copy   h = <simple>; h(args)                                             ->  h = <simple>; <simple>(args)

Nothing here looks at names of the package: the passes are generic Python rewrites.  Each is exercised on synthetic
modules by tools/test_inline.py (before/after differential)."""
import ast
import copy

_DEF = (ast.FunctionDef, ast.AsyncFunctionDef, ast.Lambda, ast.ClassDef)


def _simple(e):
    if isinstance(e, (ast.Name, ast.Constant)):
        return True
    if isinstance(e, ast.Attribute):
        return _simple(e.value)
    return False


def _walk_own(stmts):
    stack = list(stmts)
    while stack:
        n = stack.pop()
        yield n
        if isinstance(n, _DEF):
            continue
        stack.extend(ast.iter_child_nodes(n))


def _stores(stmts):
    out = {}
    for n in _walk_own(stmts):
        if isinstance(n, ast.Name) and isinstance(n.ctx, (ast.Store, ast.Del)):
            out[n.id] = out.get(n.id, 0) + 1
        elif isinstance(n, ast.ExceptHandler) and n.name:
            out[n.name] = out.get(n.name, 0) + 1
    return out


def _falls_through(stmts):
    if not stmts:
        return True
    last = stmts[-1]
    if isinstance(last, (ast.Return, ast.Raise, ast.Break, ast.Continue)):
        return False
    if isinstance(last, ast.If):
        return _falls_through(last.body) or _falls_through(last.orelse)
    if isinstance(last, ast.Try):
        if last.finalbody and not _falls_through(last.finalbody):
            return False
        main = _falls_through(last.orelse) if last.orelse else _falls_through(last.body)
        return main or any(_falls_through(h.body) for h in last.handlers)
    if isinstance(last, ast.With):
        return _falls_through(last.body)
    if isinstance(last, ast.While) and isinstance(last.test, ast.Constant) and last.test.value:
        return any(isinstance(n, ast.Break) for n in _walk_own(last.body))
    return True


class _Blocks(object):
    """Apply ``fn(block, func_node) -> new block or None`` to every statement list of a function, innermost first."""
    def __init__(self, fn):
        self.fn = fn
        self.changed = False

    def run(self, func):
        func.body = self._block(func.body, func)
        return self.changed

    def _block(self, stmts, func):
        for s in stmts:
            if isinstance(s, _DEF):
                continue
            for field in ('body', 'orelse', 'finalbody'):
                sub = getattr(s, field, None)
                if isinstance(sub, list) and sub and isinstance(sub[0], ast.stmt):
                    setattr(s, field, self._block(sub, func))
            for h in getattr(s, 'handlers', []) or []:
                h.body = self._block(h.body, func)
        r = self.fn(stmts, func)
        if r is not None:
            self.changed = True
            return r
        return stmts


# ---------------------------------------------------------------------------------------------- starargs
def starargs(func):
    st = _stores(func.body)
    params = set(a.arg for a in ast.walk(func.args) if isinstance(a, ast.arg))
    tuples = {}
    for n in _walk_own(func.body):
        if isinstance(n, ast.Assign) and len(n.targets) == 1 and isinstance(n.targets[0], ast.Name) \
                and isinstance(n.value, ast.Tuple) and st.get(n.targets[0].id) == 1 and n.targets[0].id not in params:
            ok = all(isinstance(e, ast.Name) and e.id in params and e.id not in st or isinstance(e, ast.Constant)
                     for e in n.value.elts)
            if ok:
                tuples[n.targets[0].id] = n.value
    if not tuples:
        return False
    changed = False
    for n in ast.walk(func):
        if isinstance(n, ast.Call):
            na = []
            for a in n.args:
                if isinstance(a, ast.Starred) and isinstance(a.value, ast.Name) and a.value.id in tuples:
                    na.extend(copy.deepcopy(e) for e in tuples[a.value.id].elts)
                    changed = True
                else:
                    na.append(a)
            n.args = na
    return changed


# ---------------------------------------------------------------------------------------------- yield from
_YF = [0]


def _yield_from(stmts, func):
    """`yield from E` as a statement is modelled as `for _yf in E: yield _yf` - the shape the pinned tree uses (it is
    2/3-compatible code).  The two differ only in how send() / throw() / close() of the outer generator are forwarded
    to E; the analyses work on the loop form (stated in DESIGN section 7)."""
    out = []
    changed = False
    for s in stmts:
        if isinstance(s, ast.Expr) and isinstance(s.value, ast.YieldFrom):
            _YF[0] += 1
            nm = '_yf%d' % _YF[0]
            loop = ast.For(target=ast.Name(id=nm, ctx=ast.Store()), iter=s.value.value,
                           body=[ast.Expr(value=ast.Yield(value=ast.Name(id=nm, ctx=ast.Load())))], orelse=[])
            ast.copy_location(loop, s)
            for x in ast.walk(loop):
                if not hasattr(x, 'lineno'):
                    ast.copy_location(x, s)
            ast.fix_missing_locations(loop)
            out.append(loop)
            changed = True
            continue
        out.append(s)
    return out if changed else None


# ---------------------------------------------------------------------------------------------- renamed result copies
def _coalesce_renamed(stmts, func):
    """<stmt binding sock_i1>; sock = sock_i1   ->   <stmt binding sock>   when sock_i1 (a helper local the inliner renamed
    because the caller has a `sock` of its own) is bound once, read only by that copy, and `sock` does not occur in the
    statement: the two names never hold different live values."""
    import re as _re
    for i in range(len(stmts) - 1):
        a, b = stmts[i], stmts[i + 1]
        if not (isinstance(b, ast.Assign) and len(b.targets) == 1 and isinstance(b.targets[0], ast.Name)
                and isinstance(b.value, ast.Name)):
            continue
        x, y = b.targets[0].id, b.value.id
        m_ = _re.match(r'^(.+)_i\d+$', y)
        if not m_ or m_.group(1) != x:
            continue
        occ = [n for n in ast.walk(func) if isinstance(n, ast.Name) and n.id == y]
        st_ = [n for n in occ if isinstance(n.ctx, ast.Store)]
        ld_ = [n for n in occ if isinstance(n.ctx, ast.Load)]
        if len(st_) != 1 or len(ld_) != 1 or ld_[0] is not b.value:
            continue
        if not any(n is st_[0] for n in ast.walk(a)):
            continue
        if any(isinstance(n, ast.Name) and n.id == x for n in ast.walk(a)):
            continue
        st_[0].id = x
        return stmts[:i + 1] + stmts[i + 2:]
    return None


# ---------------------------------------------------------------------------------------------- join of one piece
def _single_join(stmts, func):
    """if len(xs) == 1: p = xs[0] else: p = SEP.join(xs)   ->   p = SEP.join(xs)   (joining one piece yields that piece;
    also as a conditional expression)"""
    def is_len1(t, name):
        return isinstance(t, ast.Compare) and len(t.ops) == 1 and isinstance(t.ops[0], ast.Eq) \
            and ast.unparse(t.left) == 'len(%s)' % name and isinstance(t.comparators[0], ast.Constant) \
            and t.comparators[0].value == 1

    def is_join(e):
        if isinstance(e, ast.Call) and isinstance(e.func, ast.Attribute) and e.func.attr == 'join' \
                and isinstance(e.func.value, ast.Constant) and len(e.args) == 1 and isinstance(e.args[0], ast.Name):
            return e.args[0].id
        return None

    def is_first(e, name):
        return isinstance(e, ast.Subscript) and isinstance(e.value, ast.Name) and e.value.id == name \
            and isinstance(e.slice, ast.Constant) and e.slice.value == 0
    out = []
    changed = False
    for s in stmts:
        if isinstance(s, ast.If) and len(s.body) == 1 and len(s.orelse) == 1 and isinstance(s.body[0], ast.Assign) \
                and isinstance(s.orelse[0], ast.Assign) and ast.unparse(s.body[0].targets[0]) == ast.unparse(s.orelse[0].targets[0]) \
                and len(s.body[0].targets) == 1 and len(s.orelse[0].targets) == 1:
            nm = is_join(s.orelse[0].value)
            if nm and is_len1(s.test, nm) and is_first(s.body[0].value, nm):
                out.append(s.orelse[0])
                changed = True
                continue
        if isinstance(s, (ast.Assign, ast.Return)) and isinstance(s.value, ast.IfExp):
            nm = is_join(s.value.orelse)
            if nm and is_len1(s.value.test, nm) and is_first(s.value.body, nm):
                s.value = s.value.orelse
                changed = True
        out.append(s)
    return out if changed else None


# ---------------------------------------------------------------------------------------------- local aliases
def _module_names():
    m = _MOD[0]
    out = set()
    if m is None:
        return out
    for s_ in ast.walk(m.tree):
        if isinstance(s_, ast.Assign) and s_ in m.tree.body or isinstance(s_, (ast.If, ast.Try)) and s_ in m.tree.body:
            for t in ast.walk(s_):
                if isinstance(t, ast.Name) and isinstance(t.ctx, ast.Store):
                    out.add(t.id)
    return out


def _property_names():
    mods = _MODS[0] or {}
    key = id(mods)
    if _REBOUND.get('pkey') != key:
        out = set()
        for m in mods.values():
            for n in ast.walk(m.tree):
                if isinstance(n, ast.FunctionDef) and n.decorator_list:
                    out.add(n.name)         # property / cached / any descriptor-making decorator
        _REBOUND['pkey'] = key
        _REBOUND['props'] = out
    return _REBOUND['props']


def _rebound_attrs():
    """Attribute names stored (on any object) by some function of the package other than an __init__."""
    mods = _MODS[0] or {}
    key = id(mods)
    if _REBOUND.get('key') != key:
        out = set()
        for m in mods.values():
            for (fn, cls) in _functions(m.tree):
                if fn.name == '__init__':
                    continue
                for x in ast.walk(fn):
                    if isinstance(x, ast.Attribute) and isinstance(x.ctx, (ast.Store, ast.Del)):
                        out.add(x.attr)
        _REBOUND['key'] = key
        _REBOUND['set'] = out
    return _REBOUND['set']


_REBOUND = {}


def dealias(func, cls, qual):
    """frames = self._frames (a local alias the pinned function does not have, bound once, of an attribute chain that is not
    re-bound while the alias is in use)  ->  the chain itself at every use."""
    try:
        from .known_funcs import LOCALS
    except ImportError:
        return False
    pinned = LOCALS.get(qual)
    if pinned is None:
        return False
    st = _stores(func.body)
    params = [a.arg for a in ast.walk(func.args) if isinstance(a, ast.arg)]
    # attributes (of self) stored by each method of the class
    stored_by = {}
    if cls is not None:
        for m in cls.body:
            if isinstance(m, ast.FunctionDef):
                stored_by[m.name] = set(x.attr for x in ast.walk(m) if isinstance(x, ast.Attribute)
                                        and isinstance(x.ctx, (ast.Store, ast.Del)))
    own_stores = set(x.attr for x in ast.walk(func) if isinstance(x, ast.Attribute) and isinstance(x.ctx, (ast.Store, ast.Del)))
    changed = False
    for n in list(_walk_own(func.body)):
        if not (isinstance(n, ast.Assign) and len(n.targets) == 1 and isinstance(n.targets[0], ast.Name)):
            continue
        a = n.targets[0].id
        if a in pinned or a in params or st.get(a) != 1 or a.startswith('_inl'):
            continue
        chain = []
        e = n.value
        while isinstance(e, ast.Attribute):
            chain.append(e.attr)
            e = e.value
        is_global = not chain and isinstance(e, ast.Name) and e.id not in st and e.id not in params and e.id in _module_names()
        if not is_global and (not chain or not (isinstance(e, ast.Name) and e.id in ('self', 'cls') and e.id in params
                                                 and e.id not in st)):
            continue
        if set(chain) & own_stores:
            continue
        if set(chain) & _property_names():
            continue                    # a property computes its value at each read (session_time reads the clock)
        loads = [x for x in ast.walk(func) if isinstance(x, ast.Name) and x.id == a and isinstance(x.ctx, ast.Load)]
        if not loads or any(x.lineno < n.lineno for x in loads if hasattr(x, 'lineno')):
            continue
        # a method of self that re-binds one of the chain's attributes may only be called after the last use
        last = max(getattr(x, 'lineno', 0) for x in loads)
        risky = [c for c in ast.walk(func) if isinstance(c, ast.Call) and isinstance(c.func, ast.Attribute)
                 and isinstance(c.func.value, ast.Name) and c.func.value.id == 'self'
                 and set(chain) & stored_by.get(c.func.attr, set())]
        if any(n.lineno <= getattr(c, 'lineno', 0) <= last for c in risky):
            continue
        inloop = any(isinstance(lp, (ast.For, ast.While)) and any(x is c for c in risky for x in ast.walk(lp))
                     and any(x in loads for x in ast.walk(lp)) for lp in ast.walk(func))
        if inloop:
            continue
        # a generator is suspended at its yields: whoever runs meanwhile may re-bind the attribute, the alias keeps the old
        # object - no yield may lie between the alias and a use (nor share a loop with a use)
        # (unless nothing in the package re-binds those attributes after construction)
        ys = [y for y in _walk_own(func.body) if isinstance(y, (ast.Yield, ast.YieldFrom))]
        if set(chain) & _rebound_attrs():
            if any(n.lineno <= getattr(y, 'lineno', 0) <= last for y in ys):
                continue
            if any(isinstance(lp, (ast.For, ast.While)) and any(x is y for y in ys for x in ast.walk(lp))
                   and any(x in loads for x in ast.walk(lp)) for lp in ast.walk(func)):
                continue
        value = n.value

        class Sub(ast.NodeTransformer):
            def visit_Name(self, x):
                if x.id == a and isinstance(x.ctx, ast.Load):
                    return ast.copy_location(copy.deepcopy(value), x)
                return x

            def visit_FunctionDef(self, x):
                return x

            def visit_Lambda(self, x):
                return x

        def blk(stmts, f_):
            if any(s_ is n for s_ in stmts):
                return [s_ for s_ in stmts if s_ is not n] or [ast.copy_location(ast.Pass(), n)]
            return None
        _Blocks(blk).run(func)
        func.body = [Sub().visit(b) for b in func.body]
        ast.fix_missing_locations(func)
        changed = True
    return changed


# ---------------------------------------------------------------------------------------------- x[slice(a, b, c)]
class _SliceCall(ast.NodeTransformer):
    """x[slice(a, b, c)] with literal arguments is x[a:b:c]."""
    def __init__(self):
        self.changed = False

    def visit_Subscript(self, n):
        self.generic_visit(n)
        c = n.slice
        if isinstance(c, ast.Call) and isinstance(c.func, ast.Name) and c.func.id == 'slice' and not c.keywords \
                and 1 <= len(c.args) <= 3 and all(isinstance(a, (ast.Constant, ast.Name)) for a in c.args):
            vals = list(c.args)
            if len(vals) == 1:
                vals = [ast.Constant(value=None), vals[0], ast.Constant(value=None)]
            elif len(vals) == 2:
                vals = vals + [ast.Constant(value=None)]
            parts = [None if (isinstance(v, ast.Constant) and v.value is None) else v for v in vals]
            n.slice = ast.copy_location(ast.Slice(lower=parts[0], upper=parts[1], step=parts[2]), c)
            self.changed = True
        return n


def _slice_locals(fn):
    """`s = slice(a, b, c)` bound once, with constant / plain-name arguments, and read only as a subscript `x[s]`: each use becomes
    `x[slice(a, b, c)]` (then slice syntax) and the binding goes.  The argument names must not be re-bound inside the function
    other than as loop targets enclosing both the binding and its uses (checked coarsely: they are never assigned by a plain
    statement)."""
    import copy
    assigns = {}
    stores = {}
    for n in ast.walk(fn):
        if isinstance(n, ast.Name) and isinstance(n.ctx, ast.Store):
            stores[n.id] = stores.get(n.id, 0) + 1
        if isinstance(n, ast.Assign) and len(n.targets) == 1 and isinstance(n.targets[0], ast.Name) and isinstance(n.value, ast.Call) \
                and isinstance(n.value.func, ast.Name) and n.value.func.id == 'slice' and not n.value.keywords \
                and 1 <= len(n.value.args) <= 3 and all(isinstance(a, (ast.Constant, ast.Name)) for a in n.value.args):
            assigns.setdefault(n.targets[0].id, []).append(n)
    plain = set()
    for n in ast.walk(fn):
        if isinstance(n, (ast.Assign, ast.AugAssign, ast.AnnAssign)):
            for t in (n.targets if isinstance(n, ast.Assign) else [n.target]):
                for x in ast.walk(t):
                    if isinstance(x, ast.Name):
                        plain.add(x.id)
    done = False
    for name, ass in assigns.items():
        if len(ass) != 1 or stores.get(name) != 1:
            continue
        call = ass[0].value
        if any(isinstance(a, ast.Name) and a.id in plain for a in call.args):
            continue
        loads = [x for x in ast.walk(fn) if isinstance(x, ast.Name) and x.id == name and isinstance(x.ctx, ast.Load)]
        subs = [x for x in ast.walk(fn) if isinstance(x, ast.Subscript) and isinstance(x.slice, ast.Name) and x.slice.id == name]
        if not loads or len(loads) != len(subs):
            continue
        for x in subs:
            x.slice = copy.deepcopy(call)
        for parent in ast.walk(fn):
            for fld in ('body', 'orelse', 'finalbody'):
                lst = getattr(parent, fld, None)
                if isinstance(lst, list) and ass[0] in lst:
                    lst.remove(ass[0])
                    if not lst:
                        lst.append(ast.copy_location(ast.Pass(), ass[0]))
        done = True
    return done


# ---------------------------------------------------------------------------------------------- annotations
def _deannotate(stmts, func):
    """x: T = v  ->  x = v;  a bare `x: T` declares nothing at run time inside a function and is dropped."""
    out = []
    changed = False
    for s in stmts:
        if isinstance(s, ast.AnnAssign):
            changed = True
            if s.value is not None:
                out.append(ast.copy_location(ast.Assign(targets=[s.target], value=s.value), s))
            elif not isinstance(s.target, ast.Name):
                out.append(ast.copy_location(ast.Expr(value=s.target), s))     # the target expression is still evaluated
            continue
        out.append(s)
    if changed and not out:
        out = [ast.copy_location(ast.Pass(), stmts[0])]
    return out if changed else None


# ---------------------------------------------------------------------------------------------- f-strings
class _FString(ast.NodeTransformer):
    """f'{a}:{b!r}' -> '{}:{!r}'.format(a, b) - the spelling the 2/3-compatible tree uses (same conversions, same order of
    evaluation); nested / non-constant format specs are left alone."""
    def __init__(self):
        self.changed = False

    def visit_JoinedStr(self, n):
        self.generic_visit(n)
        tpl = []
        args = []
        for v in n.values:
            if isinstance(v, ast.Constant) and isinstance(v.value, str):
                tpl.append(v.value.replace('{', '{{').replace('}', '}}'))
            elif isinstance(v, ast.FormattedValue):
                spec = ''
                if v.format_spec is not None:
                    if not (isinstance(v.format_spec, ast.JoinedStr) and all(
                            isinstance(x, ast.Constant) for x in v.format_spec.values)):
                        return n
                    spec = ':' + ''.join(x.value for x in v.format_spec.values)
                conv = {-1: '', 115: '!s', 114: '!r', 97: '!a'}.get(v.conversion)
                if conv is None:
                    return n
                tpl.append('{%s%s}' % (conv, spec))
                args.append(v.value)
            else:
                return n
        if not args:
            return n
        self.changed = True
        call = ast.Call(func=ast.Attribute(value=ast.Constant(value=''.join(tpl)), attr='format', ctx=ast.Load()),
                        args=args, keywords=[])
        return ast.fix_missing_locations(ast.copy_location(call, n))


# ---------------------------------------------------------------------------------------------- chain(A, B)
def _chain_loop(stmts, func):
    """for x in chain(A, B): body  ->  for x in A: body; for x in B: body   (B.. pure and not re-bound by the body; no
    break / else, which would tell the two forms apart)"""
    out = []
    changed = False
    # cycle = chain(A, B) directly before `for x in cycle:` (the only read of cycle)
    for i in range(len(stmts) - 1):
        a, b = stmts[i], stmts[i + 1]
        if isinstance(a, ast.Assign) and len(a.targets) == 1 and isinstance(a.targets[0], ast.Name) \
                and isinstance(a.value, ast.Call) and ast.unparse(a.value.func) in ('chain', 'itertools.chain') \
                and isinstance(b, ast.For) and isinstance(b.iter, ast.Name) and b.iter.id == a.targets[0].id \
                and sum(1 for n in ast.walk(func) if isinstance(n, ast.Name) and n.id == b.iter.id) == 2:
            b.iter = a.value
            return stmts[:i] + stmts[i + 1:]
    for s in stmts:
        if isinstance(s, ast.For) and not s.orelse and isinstance(s.iter, ast.Call) and not s.iter.keywords \
                and len(s.iter.args) >= 2 and ast.unparse(s.iter.func) in ('chain', 'itertools.chain') \
                and not any(isinstance(a, ast.Starred) for a in s.iter.args):
            brk = False
            stack = list(s.body)
            while stack:
                x = stack.pop()
                if isinstance(x, ast.Break):
                    brk = True
                if isinstance(x, (ast.For, ast.While) + _DEF):
                    continue
                for f_ in ('body', 'orelse', 'finalbody'):
                    stack.extend(getattr(x, f_, []) or [])
                for h in getattr(x, 'handlers', []) or []:
                    stack.extend(h.body)
            st = _stores(s.body)
            rest_ok = all(_pure_value(a) and not any(isinstance(n, ast.Name) and n.id in st for n in ast.walk(a))
                          for a in s.iter.args[1:])
            if not brk and rest_ok:
                for a in s.iter.args:
                    lp = copy.deepcopy(s)
                    lp.iter = a
                    out.append(lp)
                changed = True
                continue
        out.append(s)
    return out if changed else None


# ---------------------------------------------------------------------------------------------- any / all
def _anyall_test(e):
    """In a truth-test position: any((a, b, c)) == a or b or c, all([a, b]) == a and b  for simple reads a, b, c."""
    if isinstance(e, ast.UnaryOp) and isinstance(e.op, ast.Not):
        r = _anyall_test(e.operand)
        return None if r is None else ast.copy_location(ast.UnaryOp(op=ast.Not(), operand=r), e)
    if isinstance(e, ast.BoolOp):
        vals = [(_anyall_test(v) or v) for v in e.values]
        if any(a is not b for a, b in zip(vals, e.values)):
            return ast.copy_location(ast.BoolOp(op=e.op, values=vals), e)
        return None
    if isinstance(e, ast.Call) and isinstance(e.func, ast.Name) and e.func.id in ('any', 'all') and len(e.args) == 1 \
            and not e.keywords and isinstance(e.args[0], (ast.Tuple, ast.List)) and len(e.args[0].elts) >= 2 \
            and all(_simple(x) for x in e.args[0].elts):
        op = ast.Or() if e.func.id == 'any' else ast.And()
        return ast.copy_location(ast.BoolOp(op=op, values=list(e.args[0].elts)), e)
    return None


def anyall(func):
    changed = False
    for n in ast.walk(func):
        if isinstance(n, (ast.If, ast.While, ast.IfExp, ast.Assert)):
            r = _anyall_test(n.test)
            if r is not None:
                n.test = r
                changed = True
    if changed:
        ast.fix_missing_locations(func)
    return changed


# ---------------------------------------------------------------------------------------------- yield of a conditional
def _yield_ifexp(stmts, func):
    """x = yield (A if c else B)  ->  if c: x = yield A  else: x = yield B   (c is evaluated first either way)."""
    out = []
    changed = False
    for s in stmts:
        if isinstance(s, (ast.Assign, ast.Expr)) and isinstance(s.value, ast.Yield) and isinstance(s.value.value, ast.IfExp):
            ie = s.value.value
            a = copy.deepcopy(s)
            a.value.value = ie.body
            b = copy.deepcopy(s)
            b.value.value = ie.orelse
            new = ast.copy_location(ast.If(test=ie.test, body=[a], orelse=[b]), s)
            ast.fix_missing_locations(new)
            out.append(new)
            changed = True
            continue
        out.append(s)
    return out if changed else None


# ---------------------------------------------------------------------------------------------- next(iter(E), D)
def _next_default(stmts, func):
    """x = next(iter(E), D)  ->  x = D; for x in E: break   (first item of E, or D when E is empty; D simple, x not in E)"""
    out = []
    changed = False
    for s in stmts:
        if isinstance(s, ast.Assign) and len(s.targets) == 1 and isinstance(s.targets[0], ast.Name) \
                and isinstance(s.value, ast.Call) and isinstance(s.value.func, ast.Name) and s.value.func.id == 'next' \
                and len(s.value.args) == 2 and not s.value.keywords and _simple(s.value.args[1]):
            it = s.value.args[0]
            if isinstance(it, ast.Call) and isinstance(it.func, ast.Name) and it.func.id == 'iter' and len(it.args) == 1:
                it = it.args[0]
                x = s.targets[0].id
                if isinstance(it, ast.Call) and not any(isinstance(n, ast.Name) and n.id == x for n in ast.walk(it)):
                    a = ast.copy_location(ast.Assign(targets=[ast.Name(id=x, ctx=ast.Store())], value=s.value.args[1]), s)
                    loop = ast.copy_location(ast.For(target=ast.Name(id=x, ctx=ast.Store()), iter=it,
                                                     body=[ast.copy_location(ast.Break(), s)], orelse=[]), s)
                    ast.fix_missing_locations(a)
                    ast.fix_missing_locations(loop)
                    out += [a, loop]
                    changed = True
                    continue
        out.append(s)
    return out if changed else None


# ---------------------------------------------------------------------------------------------- walrus
def _dewalrus(stmts, func):
    """if (x := E): ...  ->  x = E; if x: ...   (also `if not (x := E)`, `if (x := E) is None`, and the same at the top
    of an assignment / return / expression statement) - the assignment expression is the first thing evaluated."""
    out = []
    changed = False
    for s in stmts:
        slot = None
        if isinstance(s, ast.If):
            slot = ('test', s.test)
        elif isinstance(s, (ast.Assign, ast.Return, ast.Expr)) and s.value is not None:
            slot = ('value', s.value)
        elif isinstance(s, ast.AugAssign) and isinstance(s.target, ast.Name):
            slot = ('value', s.value)
        if slot is not None:
            e = slot[1]
            path = []
            cur = e
            ne = None
            for _ in range(4):
                if isinstance(cur, ast.NamedExpr):
                    ne = cur
                    break
                if isinstance(cur, ast.UnaryOp):
                    cur = cur.operand
                elif isinstance(cur, ast.Compare):
                    cur = cur.left
                elif isinstance(cur, ast.BinOp) and not isinstance(cur.left, ast.Name):
                    cur = cur.left
                elif isinstance(cur, ast.BoolOp):
                    cur = cur.values[0]
                elif isinstance(cur, (ast.Yield, ast.Await)) and cur.value is not None:
                    cur = cur.value
                else:
                    break
            if ne is not None and isinstance(ne.target, ast.Name):
                asg = ast.copy_location(ast.Assign(targets=[ast.Name(id=ne.target.id, ctx=ast.Store())], value=ne.value), s)
                load = ast.copy_location(ast.Name(id=ne.target.id, ctx=ast.Load()), ne)
                setattr(s, slot[0], _ReplaceNode(ne, load).visit(e))
                ast.fix_missing_locations(asg)
                out.append(asg)
                out.append(s)
                changed = True
                continue
        out.append(s)
    return out if changed else None


class _ReplaceNode(ast.NodeTransformer):
    def __init__(self, old, new):
        self.old, self.new = old, new

    def visit(self, n):
        if n is self.old:
            return self.new
        return self.generic_visit(n)


# ---------------------------------------------------------------------------------------------- tuple split
def _tuple_split(stmts, func):
    out = []
    changed = False
    for s in stmts:
        if isinstance(s, ast.Assign) and len(s.targets) == 1 and isinstance(s.targets[0], ast.Tuple) \
                and isinstance(s.value, ast.Tuple) and len(s.targets[0].elts) == len(s.value.elts) \
                and all(isinstance(t, ast.Name) for t in s.targets[0].elts) \
                and not any(isinstance(e, ast.Starred) for e in s.value.elts):
            tn = [t.id for t in s.targets[0].elts]
            # sequential assignment is exact when no target is read by a *later* element
            safe = len(set(tn)) == len(tn)
            for i_, t_ in enumerate(tn):
                for e_ in s.value.elts[i_ + 1:]:
                    if any(isinstance(x, ast.Name) and x.id == t_ for x in ast.walk(e_)):
                        safe = False
            if safe:
                for t, e in zip(s.targets[0].elts, s.value.elts):
                    if isinstance(e, ast.Name) and e.id == t.id:
                        continue             # x = x
                    na = ast.copy_location(ast.Assign(targets=[ast.Name(id=t.id, ctx=ast.Store())], value=e), s)
                    if getattr(s, '_norm', False):
                        na._norm = True
                    out.append(na)
                changed = True
                continue
        if isinstance(s, ast.Assign) and len(s.targets) == 1 and isinstance(s.targets[0], ast.Tuple) \
                and isinstance(s.value, ast.Tuple) and len(s.targets[0].elts) == len(s.value.elts) \
                and all((isinstance(t, ast.Attribute) and isinstance(t.value, ast.Name)) or isinstance(t, ast.Name)
                        for t in s.targets[0].elts) \
                and any(isinstance(t, ast.Attribute) for t in s.targets[0].elts) \
                and all(isinstance(e, (ast.Name, ast.Constant)) for e in s.value.elts) \
                and not any(isinstance(t, ast.Name) and any(isinstance(e, ast.Name) and e.id == t.id for e in s.value.elts[i_ + 1:])
                            for i_, t in enumerate(s.targets[0].elts)):
            # self.a, self.b = (x, y) with plain local names / constants on the right: attribute stores cannot change them
            for t, e in zip(s.targets[0].elts, s.value.elts):
                t2 = copy.deepcopy(t)
                t2.ctx = ast.Store()
                out.append(ast.copy_location(ast.Assign(targets=[t2], value=e), s))
            changed = True
            continue
        out.append(s)
    return out if changed else None


# ---------------------------------------------------------------------------------------------- dedispatch
def _const_key(e):
    return isinstance(e, ast.Constant) or (_simple(e) and not isinstance(e, ast.Name)) or \
        (isinstance(e, ast.Name) and e.id[:1].isupper())


class Dedispatch(object):
    def __init__(self, module_tree):
        self.mod = module_tree
        self.modconsts = {}
        for s in module_tree.body:
            if isinstance(s, ast.Assign) and len(s.targets) == 1 and isinstance(s.targets[0], ast.Name) \
                    and isinstance(s.value, ast.Dict):
                self.modconsts[s.targets[0].id] = s.value
        self.mutated = set()
        for n in ast.walk(module_tree):
            # any store through a subscript / mutating method on a name or attribute of that name
            if isinstance(n, ast.Subscript) and isinstance(n.ctx, (ast.Store, ast.Del)):
                b = n.value
                self.mutated.add(b.id if isinstance(b, ast.Name) else b.attr if isinstance(b, ast.Attribute) else None)
            if isinstance(n, ast.Call) and isinstance(n.func, ast.Attribute) and n.func.attr in (
                    'pop', 'update', 'clear', 'setdefault', 'popitem', '__setitem__', '__delitem__'):
                b = n.func.value
                self.mutated.add(b.id if isinstance(b, ast.Name) else b.attr if isinstance(b, ast.Attribute) else None)

    def table(self, e, func, cls):
        """The Dict display expression e denotes (a local assigned once, a class attribute, a module constant)."""
        d = None
        if isinstance(e, ast.Dict):
            d = e
        elif isinstance(e, ast.Name):
            st = _stores(func.body)
            if st.get(e.id) == 1:
                for n in _walk_own(func.body):
                    if isinstance(n, ast.Assign) and len(n.targets) == 1 and isinstance(n.targets[0], ast.Name) \
                            and n.targets[0].id == e.id and isinstance(n.value, ast.Dict):
                        d = n.value
            elif e.id not in st and e.id in self.modconsts:
                d = self.modconsts[e.id]
            if e.id in self.mutated:
                return None
        elif isinstance(e, ast.Attribute) and isinstance(e.value, ast.Name) and cls is not None \
                and e.value.id in ('self', 'cls', cls.name):
            if e.attr in self.mutated:
                return None
            for s in cls.body:
                if isinstance(s, ast.Assign) and len(s.targets) == 1 and isinstance(s.targets[0], ast.Name) \
                        and s.targets[0].id == e.attr and isinstance(s.value, ast.Dict):
                    d = (s.value, 'class')
        if d is None:
            return None
        kind = 'local'
        if isinstance(d, tuple):
            d, kind = d
        if not d.keys or len(d.keys) > 12 or any(k is None or not _const_key(k) for k in d.keys):
            return None
        if not all(_simple(v) or isinstance(v, ast.Lambda) for v in d.values):
            return None
        return d, kind

    def chain(self, key, d, kind, target, default, at, cls):
        """if key == k1: target = v1 elif ... else: <default stmts>"""
        node = None
        first = None
        for k, v in zip(d.keys, d.values):
            val = copy.deepcopy(v)
            if kind == 'class' and isinstance(val, ast.Name):
                # a function of the class body stored in a class-level table: reached through the class it is a plain
                # function; keep it as an attribute of the class so that calls stay resolvable
                val = ast.Attribute(value=ast.Name(id=cls.name, ctx=ast.Load()), attr=val.id, ctx=ast.Load())
            test = ast.Compare(left=copy.deepcopy(key), ops=[ast.Eq()], comparators=[copy.deepcopy(k)])
            asg = ast.Assign(targets=[ast.Name(id=target, ctx=ast.Store())], value=val)
            new = ast.If(test=test, body=[asg], orelse=[])
            ast.copy_location(new, at)
            ast.copy_location(asg, at)
            if node is None:
                first = new
            else:
                node.orelse = [new]
            node = new
        node.orelse = default
        ast.fix_missing_locations(first)
        return first

    def block(self, stmts, func, cls):
        out = []
        changed = False
        for s in stmts:
            rep = None
            # h = D.get(k[, default])   /   h = D[k] inside try/except KeyError
            if isinstance(s, ast.Assign) and len(s.targets) == 1 and isinstance(s.targets[0], ast.Name) \
                    and isinstance(s.value, ast.Call) and isinstance(s.value.func, ast.Attribute) \
                    and s.value.func.attr == 'get' and 1 <= len(s.value.args) <= 2 and not s.value.keywords \
                    and _simple(s.value.args[0]):
                t = self.table(s.value.func.value, func, cls)
                if t is not None:
                    dflt = s.value.args[1] if len(s.value.args) == 2 else ast.Constant(value=None)
                    if _simple(dflt):
                        da = ast.copy_location(ast.Assign(targets=[ast.Name(id=s.targets[0].id, ctx=ast.Store())],
                                                          value=copy.deepcopy(dflt)), s)
                        rep = [self.chain(s.value.args[0], t[0], t[1], s.targets[0].id, [da], s, cls)]
            if rep is None and isinstance(s, ast.Try) and len(s.body) == 1 and not s.finalbody and not s.orelse \
                    and len(s.handlers) == 1 and s.handlers[0].name is None and s.handlers[0].type is not None:
                b = s.body[0]
                ht = s.handlers[0].type
                names = [ast.unparse(x) for x in (ht.elts if isinstance(ht, ast.Tuple) else [ht])]
                if 'KeyError' in names and all(x in ('KeyError', 'TypeError', 'LookupError') for x in names) \
                        and isinstance(b, ast.Assign) and len(b.targets) == 1 and isinstance(b.targets[0], ast.Name) \
                        and isinstance(b.value, ast.Subscript) and _simple(b.value.slice):
                    t = self.table(b.value.value, func, cls)
                    if t is not None:
                        rep = [self.chain(b.value.slice, t[0], t[1], b.targets[0].id, s.handlers[0].body, s, cls)]
            if rep is not None:
                out.extend(rep)
                changed = True
            else:
                out.append(s)
        return out if changed else None


# ---------------------------------------------------------------------------------------------- unroll
class _SubstName(ast.NodeTransformer):
    def __init__(self, mapping):
        self.mapping = mapping

    def visit_Name(self, n):
        if isinstance(n.ctx, ast.Load) and n.id in self.mapping:
            return ast.copy_location(copy.deepcopy(self.mapping[n.id]), n)
        return n

    def visit_Lambda(self, n):
        shadow = set(a.arg for a in ast.walk(n.args) if isinstance(a, ast.arg))
        inner = {k: v for k, v in self.mapping.items() if k not in shadow}
        n.body = _SubstName(inner).visit(n.body)
        return n


class _Beta(ast.NodeTransformer):
    """(lambda a, b: E)(x, y) -> E[a:=x, b:=y] for simple x, y;   getattr(o, 'name') -> o.name"""
    def visit_Call(self, c):
        self.generic_visit(c)
        f = c.func
        if isinstance(f, ast.Lambda) and not c.keywords and not f.args.vararg and not f.args.kwarg \
                and not f.args.kwonlyargs and len(f.args.args) == len(c.args) and all(_simple(a) for a in c.args):
            m = {p.arg: a for p, a in zip(f.args.args, c.args)}
            return ast.copy_location(_SubstName(m).visit(copy.deepcopy(f.body)), c)
        if isinstance(f, ast.Name) and f.id == 'getattr' and len(c.args) == 2 and not c.keywords \
                and isinstance(c.args[1], ast.Constant) and isinstance(c.args[1].value, str) \
                and c.args[1].value.isidentifier() and _simple(c.args[0]):
            return ast.copy_location(ast.Attribute(value=c.args[0], attr=c.args[1].value, ctx=ast.Load()), c)
        return c


def _const_arith(e):
    if isinstance(e, ast.Constant):
        return isinstance(e.value, int) and not isinstance(e.value, bool)
    if isinstance(e, ast.BinOp) and isinstance(e.op, (ast.LShift, ast.Add, ast.Sub, ast.Mult, ast.Pow, ast.BitOr)):
        return _const_arith(e.left) and _const_arith(e.right)
    return False


def _const_elt(e):
    if isinstance(e, (ast.Constant, ast.Lambda)):
        return True
    if isinstance(e, ast.BinOp):
        return _const_arith(e)          # 1 << 16: integer arithmetic on literals
    if isinstance(e, ast.Call) and isinstance(e.func, ast.Name) and e.func.id == 'slice' and not e.keywords \
            and 1 <= len(e.args) <= 3 and all(isinstance(a, ast.Constant) for a in e.args):
        return True                     # slice(1, None, 4)
    if isinstance(e, ast.Tuple):
        return all(_const_elt(x) for x in e.elts)
    return _simple(e) and not isinstance(e, ast.Name)


class Unroll(object):
    def __init__(self, module_tree):
        self.modconsts = {}
        for s in module_tree.body:
            if isinstance(s, ast.Assign) and len(s.targets) == 1 and isinstance(s.targets[0], ast.Name) \
                    and isinstance(s.value, (ast.Tuple, ast.List)):
                self.modconsts[s.targets[0].id] = s.value

    def seq(self, e, func, cls, body=None):
        d = None
        if isinstance(e, ast.Call) and isinstance(e.func, ast.Name) and e.func.id == 'zip' and not e.keywords \
                and len(e.args) >= 2 and not any(isinstance(a, ast.Starred) for a in e.args):
            # zip of displays of equal length: the display of the tuples
            parts = [self.seq(a, func, cls, body) if not isinstance(a, (ast.Tuple, ast.List)) else self._display(a, body)
                     for a in e.args]
            if all(p_ is not None for p_ in parts) and len(set(len(p_.elts) for p_ in parts)) == 1:
                rows = [ast.Tuple(elts=[copy.deepcopy(p_.elts[i]) for p_ in parts], ctx=ast.Load())
                        for i in range(len(parts[0].elts))]
                return ast.copy_location(ast.Tuple(elts=rows, ctx=ast.Load()), e)
            return None
        if isinstance(e, (ast.Tuple, ast.List)):
            d = e
        elif isinstance(e, ast.Name):
            st = _stores(func.body)
            if st.get(e.id) == 1:
                for n in _walk_own(func.body):
                    if isinstance(n, ast.Assign) and len(n.targets) == 1 and isinstance(n.targets[0], ast.Name) \
                            and n.targets[0].id == e.id and isinstance(n.value, (ast.Tuple, ast.List)):
                        d = n.value
            elif e.id not in st and e.id not in set(a.arg for a in ast.walk(func.args) if isinstance(a, ast.arg)):
                d = self.modconsts.get(e.id)
        elif isinstance(e, ast.Attribute) and isinstance(e.value, ast.Name) and cls is not None \
                and e.value.id in ('self', 'cls', cls.name):
            for s in cls.body:
                if isinstance(s, ast.Assign) and len(s.targets) == 1 and isinstance(s.targets[0], ast.Name) \
                        and s.targets[0].id == e.attr and isinstance(s.value, (ast.Tuple, ast.List)):
                    # names of the class body used inside a class-level table are attributes of the class
                    cnames = set()
                    for b in cls.body:
                        if isinstance(b, ast.Assign):
                            for t in b.targets:
                                if isinstance(t, ast.Name):
                                    cnames.add(t.id)
                        elif isinstance(b, ast.FunctionDef):
                            cnames.add(b.name)
                    base = e.value.id

                    class Q(ast.NodeTransformer):
                        def visit_Name(self_, n):
                            if isinstance(n.ctx, ast.Load) and n.id in cnames:
                                return ast.copy_location(ast.Attribute(value=ast.Name(id=base, ctx=ast.Load()), attr=n.id,
                                                                       ctx=ast.Load()), n)
                            return n

                        def visit_Lambda(self_, n):
                            return n
                    d = Q().visit(copy.deepcopy(s.value))
        if d is None or not d.elts or len(d.elts) > 8:
            return None
        if not all(_const_elt(x) for x in d.elts):
            # a display written at the loop itself may also list plain locals, as long as the loop body leaves them alone
            if d is e and body is not None and all(_const_elt(x) or isinstance(x, ast.Name) for x in d.elts):
                st = _stores(body)
                if not any(isinstance(x, ast.Name) and x.id in st for x in d.elts):
                    return d
            return None
        return d

    def _display(self, d, body):
        if not d.elts or len(d.elts) > 8:
            return None
        st = _stores(body) if body is not None else {}
        for x in d.elts:
            if _const_elt(x):
                continue
            if isinstance(x, ast.Name) and body is not None and x.id not in st:
                continue
            return None
        return d

    def block(self, stmts, func, cls):
        out = []
        changed = False
        for s in stmts:
            if isinstance(s, ast.For) and not s.orelse:
                d = self.seq(s.iter, func, cls, s.body)
                tnames = None
                if isinstance(s.target, ast.Name):
                    tnames = [s.target.id]
                elif isinstance(s.target, ast.Tuple) and all(isinstance(t, ast.Name) for t in s.target.elts):
                    tnames = [t.id for t in s.target.elts]
                ok = d is not None and tnames is not None
                first_match = False
                if ok:
                    # `for x in T: if c(x): S; break` (first match wins) is an if / elif chain
                    if len(s.body) == 1 and isinstance(s.body[0], ast.If) and not s.body[0].orelse and s.body[0].body \
                            and isinstance(s.body[0].body[-1], ast.Break) \
                            and sum(1 for n in _walk_own(s.body) if isinstance(n, (ast.Break, ast.Continue))) == 1:
                        first_match = True
                    for n in _walk_own(s.body):
                        if isinstance(n, (ast.Break, ast.Continue)) and not first_match:
                            ok = False
                    st = _stores(s.body)
                    if any(t in st for t in tnames):
                        ok = False
                    # the loop variables must not be used outside loops that bind them (their final binding is dropped)
                    for t in tnames:
                        uses = sum(1 for n in _walk_own(func.body) if isinstance(n, ast.Name) and n.id == t
                                   and isinstance(n.ctx, ast.Load))
                        inside = 0
                        binds = 0
                        for lp in _walk_own(func.body):
                            if isinstance(lp, ast.For) and any(isinstance(x, ast.Name) and x.id == t for x in ast.walk(lp.target)):
                                binds += sum(1 for x in ast.walk(lp.target) if isinstance(x, ast.Name) and x.id == t)
                                inside += sum(1 for n in _walk_own(lp.body) if isinstance(n, ast.Name) and n.id == t
                                              and isinstance(n.ctx, ast.Load))
                        if uses != inside or _stores(func.body).get(t, 0) != binds:
                            ok = False
                    if ok and len(tnames) > 1:
                        ok = all(isinstance(x, ast.Tuple) and len(x.elts) == len(tnames) for x in d.elts)
                if ok and first_match:
                    chain = None
                    last = None
                    for x in d.elts:
                        m = {tnames[0]: x} if len(tnames) == 1 else dict(zip(tnames, x.elts))
                        b = copy.deepcopy(s.body[0])
                        b.body = b.body[:-1] or [ast.copy_location(ast.Pass(), b)]
                        b = _Beta().visit(_SubstName(m).visit(b))
                        if chain is None:
                            chain = b
                        else:
                            last.orelse = [b]
                        last = b
                    ast.fix_missing_locations(chain)
                    out.append(chain)
                    changed = True
                    continue
                if ok:
                    for x in d.elts:
                        m = {tnames[0]: x} if len(tnames) == 1 else dict(zip(tnames, x.elts))
                        for b in copy.deepcopy(s.body):
                            b = _SubstName(m).visit(b)
                            b = _Beta().visit(b)
                            ast.fix_missing_locations(b)
                            out.append(b)
                    changed = True
                    continue
            out.append(s)
        return out if changed else None


# ---------------------------------------------------------------------------------------------- thread
_CLS = [None]      # class whose method is being rewritten (methods of it are known callables)
_QUAL = [None]     # qualified name of the function being rewritten
_MOD = [None]      # ModuleInfo being rewritten
_MODS = [None]     # all modules (name -> ModuleInfo)


def _find_class(modname, cname):
    mods = _MODS[0] or {}
    m = mods.get(modname)
    if m is None:
        return None, None
    for s in m.tree.body:
        if isinstance(s, ast.ClassDef) and s.name == cname:
            return m, s
    # imported from a sibling module
    for s in m.tree.body:
        if isinstance(s, ast.ImportFrom) and s.level >= 1 and s.module:
            for a in s.names:
                if (a.asname or a.name) == cname:
                    return _find_class(s.module, a.name)
    return None, None


def _find_func(modname, fname):
    mods = _MODS[0] or {}
    m = mods.get(modname)
    if m is None:
        return None, None
    for s in m.tree.body:
        if isinstance(s, ast.FunctionDef) and s.name == fname:
            return m, s
    return None, None


def _method(cls, name):
    for d in cls.body:
        if isinstance(d, ast.FunctionDef) and d.name == name:
            return d
    return None


def _returns_nonnull(modname, cls, fn, depth=0):
    """Every way out of function fn returns an object that cannot be None (constructor calls, calls of functions with
    the same property); falling off the end or `return None` / unknown values make it False."""
    if depth > 5 or fn is None:
        return False
    body = fn.body
    if _falls_through(body):
        return False
    for n in _walk_own(body):
        if isinstance(n, (ast.Yield, ast.YieldFrom)):
            return False
        if isinstance(n, ast.Return):
            if n.value is None or not _call_nonnull(n.value, modname, cls, depth + 1):
                return False
    return True


def _call_nonnull(v, modname, cls, depth=0):
    if isinstance(v, (ast.Tuple, ast.List, ast.Dict, ast.Set, ast.JoinedStr)):
        return True
    if isinstance(v, ast.Constant):
        return v.value is not None
    if not isinstance(v, ast.Call):
        return False
    f = v.func
    if isinstance(f, ast.Attribute) and isinstance(f.value, ast.Constant) and isinstance(f.value.value, (str, bytes)) \
            and f.attr in ('format', 'join', 'encode', 'decode', 'lower', 'upper', 'strip'):
        return True              # 'text {}'.format(x) is a string
    if isinstance(f, ast.Name):
        if f.id[:1].isupper() or f.id == 'cls':
            return True
        m, fn = _find_func(modname, f.id)
        return fn is not None and _returns_nonnull(m.name, None, fn, depth)
    if isinstance(f, ast.Attribute) and isinstance(f.value, ast.Name):
        if f.value.id in ('self', 'cls') and cls is not None:
            return _returns_nonnull(modname, cls, _method(cls, f.attr), depth)
        if f.value.id[:1].isupper():
            m, c = _find_class(modname, f.value.id)
            if c is not None:
                return _returns_nonnull(m.name, c, _method(c, f.attr), depth)
        if f.attr[:1].isupper():
            return True          # module.ClassName(...)
    return False


def _sentinels(tree):
    """Module-private sentinels: NAME = object() at module level, NAME used only in `is` / `is not` comparisons and
    as a value that is assigned or returned."""
    cache = getattr(tree, '_sentinels', None)
    if cache is not None:
        return cache
    cands = set()
    for s_ in tree.body:
        if isinstance(s_, ast.Assign) and len(s_.targets) == 1 and isinstance(s_.targets[0], ast.Name) \
                and isinstance(s_.value, ast.Call) and isinstance(s_.value.func, ast.Name) and s_.value.func.id == 'object' \
                and not s_.value.args and not s_.value.keywords:
            cands.add(s_.targets[0].id)
    if cands:
        par = {}
        for n in ast.walk(tree):
            for c in ast.iter_child_nodes(n):
                par[id(c)] = n
        for n in ast.walk(tree):
            if isinstance(n, ast.Name) and n.id in cands and isinstance(n.ctx, ast.Load):
                p_ = par.get(id(n))
                ok = (isinstance(p_, ast.Compare) and all(isinstance(o, (ast.Is, ast.IsNot)) for o in p_.ops)) or \
                    (isinstance(p_, (ast.Assign, ast.Return)) and p_.value is n)
                if not ok:
                    cands.discard(n.id)
            elif isinstance(n, ast.Name) and n.id in cands and isinstance(n.ctx, ast.Store):
                if not (isinstance(par.get(id(n)), ast.Assign) and par.get(id(n)) in tree.body):
                    cands.discard(n.id)
    tree._sentinels = cands
    return cands


def _known(v):
    """What is known about the value of expression v: ('const', value) | ('notnone',) | None"""
    cls = _CLS[0]
    if isinstance(v, ast.Name) and _MOD[0] is not None and v.id in _sentinels(_MOD[0].tree):
        return ('sentinel', v.id)
    if cls is not None and isinstance(v, ast.Attribute) and isinstance(v.value, ast.Name) \
            and v.value.id in ('self', 'cls', cls.name) \
            and any(isinstance(d, ast.FunctionDef) and d.name == v.attr for d in cls.body):
        return ('truth', True)       # a method of the class
    if isinstance(v, ast.Constant):
        return ('const', v.value)
    if isinstance(v, (ast.Tuple, ast.List, ast.Set)) and not any(isinstance(e, ast.Starred) for e in v.elts):
        return ('truth', bool(v.elts))
    if isinstance(v, ast.Dict):
        return ('truth', bool(v.keys))
    if isinstance(v, ast.Call):
        f = v.func
        nm = f.id if isinstance(f, ast.Name) else f.attr if isinstance(f, ast.Attribute) else ''
        if nm[:1].isupper():
            return ('notnone',)          # a class instantiation is never None (its truth value is not assumed)
        if _MOD[0] is not None and _call_nonnull(v, _MOD[0].name, cls):
            return ('notnone',)          # a function all of whose returns construct an object
    if isinstance(v, ast.Attribute) and isinstance(v.value, ast.Name) and v.value.id in ('self', 'cls'):
        return None
    if isinstance(v, ast.Lambda):
        return ('truth', True)
    if isinstance(v, ast.Call) and _MOD[0] is not None:
        sent = _sentinels(_MOD[0].tree)
        if sent and not any(isinstance(x, ast.Name) and x.id in sent for x in ast.walk(v)):
            return ('call',)             # some value that is not a module-private sentinel
    return None


def _fold_test(test, name, k):
    """Truth value of `test` (a test on local ``name``) given knowledge k, or None."""
    neg = False
    e = test
    while isinstance(e, ast.UnaryOp) and isinstance(e.op, ast.Not):
        e = e.operand
        neg = not neg
    r = None
    if isinstance(e, ast.Name) and e.id == name:
        if k[0] == 'const':
            r = bool(k[1])
        elif k[0] == 'truth':
            r = k[1]
    elif isinstance(e, ast.Compare) and len(e.ops) == 1 and isinstance(e.left, ast.Name) and e.left.id == name \
            and isinstance(e.comparators[0], ast.Name) and isinstance(e.ops[0], (ast.Is, ast.IsNot)) \
            and _MOD[0] is not None and e.comparators[0].id in _sentinels(_MOD[0].tree):
        if k[0] == 'sentinel':
            r = (k[1] == e.comparators[0].id)
        else:
            r = False
        if isinstance(e.ops[0], ast.IsNot):
            r = not r
    elif isinstance(e, ast.Compare) and len(e.ops) == 1 and isinstance(e.left, ast.Name) and e.left.id == name \
            and isinstance(e.comparators[0], ast.Constant):
        c = e.comparators[0].value
        op = e.ops[0]
        if isinstance(op, (ast.Is, ast.IsNot)) and c is None:
            if k[0] == 'const':
                r = (k[1] is None)
            elif k[0] in ('notnone', 'truth', 'sentinel'):
                r = False
            if r is not None and isinstance(op, ast.IsNot):
                r = not r
        elif isinstance(op, (ast.Eq, ast.NotEq)) and k[0] == 'const' and type(k[1]) in (int, str, bytes, bool, type(None)) \
                and type(c) in (int, str, bytes, bool, type(None)):
            r = (k[1] == c)
            if isinstance(op, ast.NotEq):
                r = not r
    if r is None:
        return None
    return (not r) if neg else r


def _tails(s):
    """[(list-holder, attr)] of the statement lists that are tails of compound statement s (falling-through or not);
    for a try without else the body's tail is reported as ('orelse') to be created."""
    out = []
    if isinstance(s, ast.If):
        out.append((s, 'body'))
        out.append((s, 'orelse'))
    elif isinstance(s, ast.Try):
        out.append((s, 'orelse' if s.orelse else 'body'))
        for h in s.handlers:
            out.append((h, 'body'))
    return out


def _tail_lists(s, acc, dirty=frozenset()):
    """Innermost tail statement lists of s (descending through nested if / try at tail position), each with the set
    of locals that may have been re-bound on the way to it by statements outside its own trailing run."""
    for (holder, attr) in _tails(s):
        lst = getattr(holder, attr)
        extra = set()
        if isinstance(s, ast.Try) and not (holder is s and attr == 'body'):
            extra = set(_stores(s.body))
        if lst and isinstance(lst[-1], (ast.If, ast.Try)) and not (isinstance(lst[-1], ast.Try) and lst[-1].finalbody):
            _tail_lists(lst[-1], acc, frozenset(dirty | extra | set(_stores(lst[:-1]))))
        else:
            acc.append((holder, attr, frozenset(dirty | extra)))


def _trailing(lst):
    """{name: value expr} of the trailing run of simple local assignments of a statement list (calls in between are
    skipped: they cannot rebind a local)."""
    vals = {}
    for st in reversed(lst):
        if isinstance(st, ast.Assign) and len(st.targets) == 1 and isinstance(st.targets[0], ast.Name):
            vals.setdefault(st.targets[0].id, st.value)
            continue
        if isinstance(st, ast.Expr) and isinstance(st.value, ast.Call):
            continue
        break
    return vals


def _size(stmts):
    return sum(1 for s in stmts for _ in ast.walk(s))


def _flag_use(rest):
    """How the statements after S use a local first: ('if', j, name) | ('return', 0, name) | ('callee', 0, name)"""
    for j, r in enumerate(rest[:3]):
        if isinstance(r, ast.If):
            e = r.test
            while isinstance(e, ast.UnaryOp) and isinstance(e.op, ast.Not):
                e = e.operand
            nm = None
            if isinstance(e, ast.Name):
                nm = e.id
            elif isinstance(e, ast.Compare) and len(e.ops) == 1 and isinstance(e.left, ast.Name) \
                    and (isinstance(e.comparators[0], ast.Constant) or (
                        isinstance(e.comparators[0], ast.Name) and _MOD[0] is not None
                        and e.comparators[0].id in _sentinels(_MOD[0].tree))):
                nm = e.left.id
            if nm is not None and nm not in _stores(rest[:j]):
                return ('if', j, nm)
            break
        if not isinstance(r, (ast.Expr, ast.Assign)):
            break
    r0 = rest[0]
    if isinstance(r0, ast.Return) and len(rest) == 1 and r0.value is not None:
        e = r0.value
        while isinstance(e, ast.UnaryOp) and isinstance(e.op, ast.Not):
            e = e.operand
        if isinstance(e, ast.Name):
            return ('return', 0, e.id)
    call = None
    if isinstance(r0, (ast.Expr, ast.Return, ast.Assign)) and isinstance(r0.value, ast.Call):
        call = r0.value
    elif isinstance(r0, (ast.Expr, ast.Assign)) and isinstance(r0.value, ast.Yield) and isinstance(r0.value.value, ast.Call):
        call = r0.value.value
    if call is not None and isinstance(call.func, ast.Name):
        return ('callee', 0, call.func.id)
    return None


def _thread(stmts, func):
    for i, s in enumerate(stmts):
        if not isinstance(s, (ast.If, ast.Try)) or (isinstance(s, ast.Try) and s.finalbody):
            continue
        rest = stmts[i + 1:]
        if not rest or _size(rest) > 600:
            continue
        use = _flag_use(rest)
        if use is None:
            continue
        kind, j, nm = use
        params = set(a.arg for a in ast.walk(func.args) if isinstance(a, ast.arg))
        if nm in params and nm not in _stores(func.body):
            continue
        base = _trailing(stmts[:i]).get(nm)
        tails = []
        _tail_lists(s, tails)
        if not tails or len(tails) > 8:
            continue
        plan = []
        ok = True
        n_inf = 0
        for (holder, attr, dirty) in tails:
            lst = getattr(holder, attr)
            if not _falls_through(lst):
                continue
            tr = _trailing(lst)
            if nm in tr:
                val = tr[nm]
            elif nm in _stores(lst) or nm in dirty or base is None:
                ok = False
                break
            else:
                val = base
            if kind == 'callee':
                good = _simple(val) and not isinstance(val, ast.Constant)
                info = val
            else:
                k = _known(val)
                good = k is not None
                if good and kind == 'if':
                    good = _fold_test(rest[j].test, nm, k) is not None
                if good and kind == 'return':
                    good = k[0] == 'const' and type(k[1]) in (bool, int, str, bytes, type(None))
                info = k
            if not good:
                ok = False
                break
            n_inf += 1
            plan.append((holder, 'orelse*' if (isinstance(holder, ast.Try) and attr == 'body') else attr, info))
        if not ok or n_inf < 2:
            continue
        for (holder, attr, info) in plan:
            cp = copy.deepcopy(rest)
            if kind == 'if':
                t = _fold_test(cp[j].test, nm, info)
                taken = cp[j].body if t else cp[j].orelse
                cp = cp[:j] + taken + (cp[j + 1:] if _falls_through(taken) else [])
            elif kind == 'return':
                e = cp[0].value
                neg = False
                while isinstance(e, ast.UnaryOp) and isinstance(e.op, ast.Not):
                    e = e.operand
                    neg = not neg
                v = info[1]
                cp[0].value = ast.copy_location(ast.Constant(value=(not v) if neg else v), cp[0])
            if attr == 'orelse*':
                holder.orelse = cp or [ast.copy_location(ast.Pass(), holder)]
            else:
                getattr(holder, attr).extend(cp)
        return stmts[:i + 1]
    return None


def _callee_ifexp(stmts, func):
    """h = A if c else B  (c a simple read, h later called)  ->  if c: h = A else: h = B   so that the call through h
    can be threaded into the two branches."""
    called = set(n.func.id for n in ast.walk(func) if isinstance(n, ast.Call) and isinstance(n.func, ast.Name))
    out = []
    changed = False
    for s in stmts:
        if isinstance(s, ast.Assign) and len(s.targets) == 1 and isinstance(s.targets[0], ast.Name) \
                and s.targets[0].id in called and isinstance(s.value, ast.IfExp) and _simple(_atom(s.value.test)[0]) \
                and _simple(s.value.body) and _simple(s.value.orelse):
            nm = s.targets[0].id
            new = ast.If(test=s.value.test,
                         body=[ast.Assign(targets=[ast.Name(id=nm, ctx=ast.Store())], value=s.value.body)],
                         orelse=[ast.Assign(targets=[ast.Name(id=nm, ctx=ast.Store())], value=s.value.orelse)])
            ast.copy_location(new, s)
            for x in new.body + new.orelse:
                ast.copy_location(x, s)
            ast.fix_missing_locations(new)
            out.append(new)
            changed = True
            continue
        out.append(s)
    return out if changed else None


def _callee_copy(stmts, func):
    changed = False
    for i in range(len(stmts) - 1):
        a, b = stmts[i], stmts[i + 1]
        if isinstance(a, ast.Assign) and len(a.targets) == 1 and isinstance(a.targets[0], ast.Name) \
                and (_simple(a.value) or isinstance(a.value, ast.Lambda)) and not isinstance(a.value, ast.Constant):
            nm = a.targets[0].id
            call = None
            if isinstance(b, (ast.Expr, ast.Return, ast.Assign)) and isinstance(b.value, ast.Call):
                call = b.value
            elif isinstance(b, (ast.Expr, ast.Assign)) and isinstance(b.value, ast.Yield) and isinstance(b.value.value, ast.Call):
                call = b.value.value
            if call is not None and isinstance(call.func, ast.Name) and call.func.id == nm \
                    and not any(isinstance(x, ast.Name) and x.id == nm for arg in call.args for x in ast.walk(arg)):
                call.func = copy.deepcopy(a.value)
                if isinstance(call.func, ast.Lambda):
                    nb = _Beta().visit(b)
                    stmts[i + 1] = nb
                ast.fix_missing_locations(stmts[i + 1])
                changed = True
    return stmts if changed else None


# ---------------------------------------------------------------------------------------------- scalar replacement
def _namedtuples(tree):
    """{class name: [field names]} for  X = namedtuple('X', 'a b' / ['a', 'b'])  at module level."""
    cache = getattr(tree, '_namedtuples', None)
    if cache is not None:
        return cache
    out = {}
    for s_ in tree.body:
        if isinstance(s_, ast.Assign) and len(s_.targets) == 1 and isinstance(s_.targets[0], ast.Name) \
                and isinstance(s_.value, ast.Call) and len(s_.value.args) >= 2 and not s_.value.keywords:
            f = s_.value.func
            nm = f.id if isinstance(f, ast.Name) else f.attr if isinstance(f, ast.Attribute) else ''
            if nm != 'namedtuple':
                continue
            spec = s_.value.args[1]
            fields = None
            if isinstance(spec, ast.Constant) and isinstance(spec.value, str):
                fields = spec.value.replace(',', ' ').split()
            elif isinstance(spec, (ast.List, ast.Tuple)) and all(isinstance(x, ast.Constant) and isinstance(x.value, str)
                                                                  for x in spec.elts):
                fields = [x.value for x in spec.elts]
            if fields:
                out[s_.targets[0].id] = fields

    def class_fields(cd):
        # class X(namedtuple('X', fields)): ...   (methods added to the record type)
        if len(cd.bases) == 1 and isinstance(cd.bases[0], ast.Call) and len(cd.bases[0].args) >= 2:
            f = cd.bases[0].func
            nm = f.id if isinstance(f, ast.Name) else f.attr if isinstance(f, ast.Attribute) else ''
            spec = cd.bases[0].args[1]
            if nm == 'namedtuple':
                if isinstance(spec, ast.Constant) and isinstance(spec.value, str):
                    return spec.value.replace(',', ' ').split()
                if isinstance(spec, (ast.List, ast.Tuple)) and all(isinstance(x, ast.Constant) and isinstance(x.value, str)
                                                                  for x in spec.elts):
                    return [x.value for x in spec.elts]
        return None
    for s_ in tree.body:
        if isinstance(s_, ast.ClassDef):
            fl = class_fields(s_)
            if fl and not any(isinstance(b_, ast.FunctionDef) and b_.name in ('__new__', '__init__', '__getattr__')
                              for b_ in s_.body):
                out[s_.name] = fl
        elif isinstance(s_, ast.ImportFrom) and s_.module and _MODS[0]:
            sm = _MODS[0].get(s_.module.split('.')[-1])
            if sm is not None and sm.tree is not tree:
                other = _namedtuples(sm.tree)
                for a_ in s_.names:
                    if a_.name in other:
                        out[a_.asname or a_.name] = other[a_.name]
    tree._namedtuples = out
    return out


def scalar_replace(func, tree):
    """t = NT(a=e1, b=e2) (possibly in several branches) with t used only as t.a / t.b  ->  t__a = e1; t__b = e2 and
    the field reads renamed (the record only groups values; evaluation order of e1, e2 is kept)."""
    nts = _namedtuples(tree)
    if not nts:
        return False
    changed = False
    cands = {}
    for n in _walk_own(func.body):
        if isinstance(n, ast.Assign) and len(n.targets) == 1 and isinstance(n.targets[0], ast.Name) \
                and isinstance(n.value, ast.Call) and isinstance(n.value.func, ast.Name) and n.value.func.id in nts:
            cands.setdefault(n.targets[0].id, []).append(n)
    st = _stores(func.body)
    params = set(a.arg for a in ast.walk(func.args) if isinstance(a, ast.arg))
    for t, assigns in cands.items():
        if t in params or st.get(t) != len(assigns):
            continue
        ntn = set(a.value.func.id for a in assigns)
        if len(ntn) != 1:
            continue
        fields = nts[next(iter(ntn))]
        plans = []
        ok = True
        for n in assigns:
            if any(isinstance(a, ast.Starred) for a in n.value.args) or any(k.arg is None for k in n.value.keywords):
                ok = False
                break
            vals = {}
            order = []
            for f_, a in zip(fields, n.value.args):
                vals[f_] = a
                order.append(f_)
            for k in n.value.keywords:
                if k.arg not in fields or k.arg in vals:
                    ok = False
                vals[k.arg] = k.value
                order.append(k.arg)
            if set(vals) != set(fields):
                ok = False
            plans.append((n, vals, order))
        if not ok:
            continue
        par = {}
        for x in ast.walk(func):
            for c in ast.iter_child_nodes(x):
                par[id(c)] = x
        uses = [x for x in ast.walk(func) if isinstance(x, ast.Name) and x.id == t and isinstance(x.ctx, ast.Load)]
        if not uses or not all(isinstance(par.get(id(u)), ast.Attribute) and par[id(u)].attr in fields
                               and isinstance(par[id(u)].ctx, ast.Load) for u in uses):
            continue
        repl = {}
        for (n, vals, order) in plans:
            repl[id(n)] = [ast.copy_location(ast.Assign(targets=[ast.Name(id='%s__%s' % (t, f_), ctx=ast.Store())],
                                                        value=vals[f_]), n) for f_ in order]
            for a_ in repl[id(n)]:
                a_._norm = True

        class RW(ast.NodeTransformer):
            def visit_Attribute(self, a):
                if isinstance(a.value, ast.Name) and a.value.id == t and a.attr in fields and isinstance(a.ctx, ast.Load):
                    return ast.copy_location(ast.Name(id='%s__%s' % (t, a.attr), ctx=ast.Load()), a)
                return self.generic_visit(a)

        def blk(stmts, f2):
            if any(id(x) in repl for x in stmts):
                out = []
                for x in stmts:
                    out.extend(repl.get(id(x), [x]))
                return out
            return None
        _Blocks(blk).run(func)
        RW().visit(func)
        ast.fix_missing_locations(func)
        changed = True
    return changed


# ---------------------------------------------------------------------------------------------- temp forwarding
def _reaches_first(e, t):
    """'hit' when the local t is the first thing expression e evaluates that is not a plain name / constant /
    attribute chain; 'miss' when something else is evaluated before it; 'none' when t does not occur."""
    if e is None:
        return 'none'
    if isinstance(e, ast.Name):
        return 'hit' if e.id == t else 'none'
    if _simple(e):
        return 'hit' if any(isinstance(x, ast.Name) and x.id == t for x in ast.walk(e)) else 'none'
    if isinstance(e, ast.Call):
        subs = [e.func.value if isinstance(e.func, ast.Attribute) else e.func] + list(e.args) + [k.value for k in e.keywords]
    elif isinstance(e, (ast.Tuple, ast.List, ast.Set)):
        subs = list(e.elts)
    elif isinstance(e, ast.BinOp):
        subs = [e.left, e.right]
    elif isinstance(e, ast.Compare):
        subs = [e.left] + list(e.comparators)
    elif isinstance(e, (ast.Yield, ast.Await, ast.Starred)):
        subs = [e.value]
    elif isinstance(e, ast.UnaryOp):
        subs = [e.operand]
    elif isinstance(e, ast.Attribute):
        subs = [e.value]
    elif isinstance(e, ast.Subscript):
        subs = [e.value, e.slice]
    elif isinstance(e, ast.BoolOp):
        subs = [e.values[0]]
        rest_has = any(isinstance(x, ast.Name) and x.id == t for v in e.values[1:] for x in ast.walk(v))
        r = _reaches_first(e.values[0], t)
        return 'miss' if (r != 'hit' and rest_has) else r
    elif isinstance(e, ast.IfExp):
        r = _reaches_first(e.test, t)
        rest_has = any(isinstance(x, ast.Name) and x.id == t for v in (e.body, e.orelse) for x in ast.walk(v))
        return 'miss' if (r != 'hit' and rest_has) else r
    else:
        return 'miss' if any(isinstance(x, ast.Name) and x.id == t for x in ast.walk(e)) else 'none'
    for sub in subs:
        if sub is None:
            continue
        r = _reaches_first(sub, t)
        if r == 'hit':
            return 'hit'
        if r == 'miss':
            return 'miss'
        if not _simple(sub):
            # something else is evaluated here; t must not come later
            later = False
            seen = False
            for s2 in subs:
                if s2 is sub:
                    seen = True
                    continue
                if seen and s2 is not None and any(isinstance(x, ast.Name) and x.id == t for x in ast.walk(s2)):
                    later = True
            return 'miss' if later else 'none'
    return 'none'


class _ReplaceName(ast.NodeTransformer):
    def __init__(self, name, value):
        self.name, self.value = name, value

    def visit_Name(self, n):
        if n.id == self.name and isinstance(n.ctx, ast.Load):
            return self.value
        return n


def _temp_forward(stmts, func):
    """_inlN = E; yield _inlN  ->  yield E   (temporaries introduced by the inliner, used once, at once)"""
    loads = {}
    for n in ast.walk(func):
        if isinstance(n, ast.Name) and isinstance(n.ctx, ast.Load):
            loads[n.id] = loads.get(n.id, 0) + 1
    # loads of a name that sit inside a `for <name> in ...` body are bound by that loop, not by an earlier assignment
    loop_bound = {}
    for n in ast.walk(func):
        if isinstance(n, ast.For) and isinstance(n.target, ast.Name):
            for x in _walk_own(n.body):
                if isinstance(x, ast.Name) and isinstance(x.ctx, ast.Load) and x.id == n.target.id:
                    loop_bound[x.id] = loop_bound.get(x.id, 0) + 1

    def single_use(name, a_stmt):
        if name.startswith('_inl') and loads.get(name) == 1:
            return True
        # a local the pinned function does not have, bound once and read once (right after): `ev = E; yield ev`
        try:
            from .known_funcs import LOCALS as _L
        except ImportError:
            _L = {}
        pinned_ = _L.get(_QUAL[0])
        if pinned_ is not None and name not in pinned_ and loads.get(name) == 1 and _stores(func.body).get(name) == 1:
            return True
        if not name.startswith('_inl') and not getattr(a_stmt, '_norm', False):
            return False            # only assignments that replace a helper's `return value`
        # every other read of the name gets its value from somewhere else: from a loop binding it, or from an assignment
        # that is the statement just before the reading one
        fresh = set()
        for blk in ast.walk(func):
            for field in ('body', 'orelse', 'finalbody'):
                lst = getattr(blk, field, None)
                if not (isinstance(lst, list) and lst and isinstance(lst[0], ast.stmt)):
                    continue
                for k in range(1, len(lst)):
                    p_ = lst[k - 1]
                    if isinstance(p_, ast.Assign) and len(p_.targets) == 1 and isinstance(p_.targets[0], ast.Name) \
                            and p_.targets[0].id == name:
                        cur = lst[k]
                        roots = [cur] if not isinstance(cur, (ast.If, ast.For, ast.While, ast.Try, ast.With)) else \
                            [getattr(cur, 'test', None) or getattr(cur, 'iter', None)]
                        for r_ in roots:
                            if r_ is None:
                                continue
                            for x in ast.walk(r_):
                                if isinstance(x, ast.Name) and isinstance(x.ctx, ast.Load) and x.id == name:
                                    fresh.add(id(x))
        for f_ in ast.walk(func):
            if isinstance(f_, ast.For) and isinstance(f_.target, ast.Name) and f_.target.id == name:
                if any(x is a_stmt for x in _walk_own(f_.body)):
                    return False
                for x in _walk_own(f_.body):
                    if isinstance(x, ast.Name) and isinstance(x.ctx, ast.Load) and x.id == name:
                        fresh.add(id(x))
        return all(id(x) in fresh for x in ast.walk(func) if isinstance(x, ast.Name) and isinstance(x.ctx, ast.Load)
                   and x.id == name)
    out = []
    changed = False
    i = 0
    while i < len(stmts):
        a = stmts[i]
        b = stmts[i + 1] if i + 1 < len(stmts) else None
        if b is not None and isinstance(a, ast.Assign) and len(a.targets) == 1 and isinstance(a.targets[0], ast.Name) \
                and single_use(a.targets[0].id, a):
            t = a.targets[0].id
            slot = None
            if isinstance(b, (ast.Expr, ast.Return, ast.Assign)) and b.value is not None:
                if isinstance(b.value, ast.Name) and b.value.id == t:
                    slot = (b, 'value')
                elif isinstance(b.value, ast.Yield) and isinstance(b.value.value, ast.Name) and b.value.value.id == t:
                    slot = (b.value, 'value')
            elif isinstance(b, ast.For) and isinstance(b.iter, ast.Name) and b.iter.id == t:
                slot = (b, 'iter')
            elif isinstance(b, ast.If) and isinstance(b.test, ast.Name) and b.test.id == t:
                slot = (b, 'test')
            if slot is not None:
                setattr(slot[0], slot[1], a.value)
                out.append(b)
                changed = True
                i += 2
                continue
            if t.startswith('_inl'):
                root = None
                if isinstance(b, (ast.Expr, ast.Return, ast.Assign)) and b.value is not None:
                    root = ('value', b.value)
                elif isinstance(b, ast.If):
                    root = ('test', b.test)
                elif isinstance(b, ast.For):
                    root = ('iter', b.iter)
                if root is not None and _reaches_first(root[1], t) == 'hit' and \
                        sum(1 for x in ast.walk(root[1]) if isinstance(x, ast.Name) and x.id == t) == 1:
                    setattr(b, root[0], _ReplaceName(t, a.value).visit(root[1]))
                    out.append(b)
                    changed = True
                    i += 2
                    continue
        out.append(a)
        i += 1
    return out if changed else None


# ---------------------------------------------------------------------------------------------- constant tests
def _const_truth(e):
    """Truth value of a test made of constants only (after parameter substitution), else None."""
    if isinstance(e, ast.Constant):
        return bool(e.value)
    if isinstance(e, ast.UnaryOp) and isinstance(e.op, ast.Not):
        r = _const_truth(e.operand)
        return None if r is None else (not r)
    if isinstance(e, ast.Compare) and len(e.ops) == 1 and isinstance(e.left, ast.Constant) \
            and isinstance(e.comparators[0], ast.Constant):
        a, b, op = e.left.value, e.comparators[0].value, e.ops[0]
        simple = (bool, int, str, bytes, type(None))
        if type(a) not in simple or type(b) not in simple:
            return None
        if isinstance(op, (ast.Is, ast.IsNot)):
            if a is None or b is None or isinstance(a, bool) or isinstance(b, bool):
                r = a is b
            else:
                return None
            return r if isinstance(op, ast.Is) else (not r)
        if isinstance(op, (ast.Eq, ast.NotEq)):
            r = (a == b) and (type(a) is type(b) or not (isinstance(a, (str, bytes)) or isinstance(b, (str, bytes))))
            r = a == b
            return r if isinstance(op, ast.Eq) else (not r)
        return None
    if isinstance(e, ast.BoolOp):
        vals = [_const_truth(v) for v in e.values]
        if isinstance(e.op, ast.And):
            if any(v is False for v in vals):
                # everything before the first False must be known true for the result to be decided without effects
                for v in vals:
                    if v is False:
                        return False
                    if v is None:
                        return None
            return True if all(v is True for v in vals) else None
        for v in vals:
            if v is True:
                return True
            if v is None:
                return None
        return False
    return None


def _fold_const_tests(stmts, func):
    out = []
    changed = False
    for s in stmts:
        if isinstance(s, ast.If):
            r = _const_truth(s.test)
            if r is not None:
                out.extend(s.body if r else s.orelse)
                changed = True
                continue
        out.append(s)
    if changed and not out:
        out = [ast.copy_location(ast.Pass(), stmts[0])]
    return out if changed else None


def _drop_dead(stmts, func):
    """Statements after an unconditional return / raise / break / continue of the same block never run."""
    for i, s in enumerate(stmts[:-1]):
        if isinstance(s, (ast.Return, ast.Raise, ast.Break, ast.Continue)):
            return stmts[:i + 1]
    return None


# ---------------------------------------------------------------------------------------------- repeated tests
def _atom(test):
    neg = False
    e = test
    while isinstance(e, ast.UnaryOp) and isinstance(e.op, ast.Not):
        e = e.operand
        neg = not neg
    return e, neg


def _repeated_tests(stmts, func):
    """Inside the branch of `if C:` a nested `if C:` / `if not C:` on the same simple read (a name or attribute chain
    whose base name is not re-bound in the branch) is decided - the same assumption the path analysis makes when it
    drops paths asserting an atom both ways."""
    changed = [False]

    class FoldIfExp(ast.NodeTransformer):
        def __init__(self, text, truth):
            self.text, self.truth = text, truth

        def visit_IfExp(self, n):
            self.generic_visit(n)
            e, neg = _atom(n.test)
            if _simple(e) and ast.unparse(e) == self.text:
                changed[0] = True
                return n.body if (self.truth != neg) else n.orelse
            return n

        def visit_FunctionDef(self, n):
            return n

        def visit_Lambda(self, n):
            return n

    def effects(node):
        # anything that can run other code (and so change an attribute): a call, a yield, an attribute / item store
        for x in ast.walk(node):
            if isinstance(x, (ast.Call, ast.Yield, ast.YieldFrom, ast.Await)):
                return True
            if isinstance(x, (ast.Attribute, ast.Subscript)) and isinstance(x.ctx, (ast.Store, ast.Del)):
                return True
        return False

    def fold_in(branch, text, truth, names, attr_atom=False):
        if any(n in _stores(branch) for n in names):
            return branch
        out = []
        for k, st in enumerate(branch):
            if isinstance(st, _DEF):
                out.append(st)
                continue
            if isinstance(st, (ast.Assign, ast.Expr, ast.Return, ast.AugAssign)) and not (attr_atom and effects(st)):
                st = FoldIfExp(text, truth).visit(st)
            if isinstance(st, ast.If):
                e, neg = _atom(st.test)
                if _simple(e) and ast.unparse(e) == text:
                    val = truth != neg
                    taken = fold_in(st.body if val else st.orelse, text, truth, names, attr_atom)
                    out.extend(taken)
                    changed[0] = True
                    continue
            header = [getattr(st, 'test', None), getattr(st, 'iter', None)] + [
                i_.context_expr for i_ in getattr(st, 'items', []) or []]
            if attr_atom and any(h_ is not None and effects(h_) for h_ in header):
                # what the test said about the attribute holds only until other code runs
                out.append(st)
                out.extend(branch[k + 1:])
                return out
            for field in ('body', 'orelse', 'finalbody'):
                sub = getattr(st, field, None)
                if isinstance(sub, list) and sub and isinstance(sub[0], ast.stmt):
                    setattr(st, field, fold_in(sub, text, truth, names, attr_atom) or [ast.copy_location(ast.Pass(), st)])
            for h in getattr(st, 'handlers', []) or []:
                h.body = fold_in(h.body, text, truth, names, attr_atom) or [ast.copy_location(ast.Pass(), h)]
            out.append(st)
            if attr_atom and effects(st):
                out.extend(branch[k + 1:])
                return out
        return out
    for s in stmts:
        if isinstance(s, ast.If):
            e, neg = _atom(s.test)
            if _simple(e) and not isinstance(e, ast.Constant):
                names = set(x.id for x in ast.walk(e) if isinstance(x, ast.Name))
                text = ast.unparse(e)
                # what a test said about a field of the object itself (self.x, cls.x, a module global) holds only until
                # other code runs; a field of an object held in a local is taken as stable unless the branch stores to it
                base = e
                while isinstance(base, ast.Attribute):
                    base = base.value
                params0 = [a.arg for a in func.args.posonlyargs + func.args.args][:1]
                local_base = isinstance(base, ast.Name) and base.id not in params0 and base.id in _stores(func.body)
                aa = not isinstance(e, ast.Name) and not local_base
                if local_base and not isinstance(e, ast.Name):
                    stored_attr = any(isinstance(x, ast.Attribute) and isinstance(x.ctx, (ast.Store, ast.Del))
                                      and isinstance(x.value, ast.Name) and x.value.id == base.id
                                      for b_ in (s.body + s.orelse) for x in ast.walk(b_))
                    if stored_attr:
                        aa = True
                s.body = fold_in(s.body, text, not neg, names, aa) or [ast.copy_location(ast.Pass(), s)]
                s.orelse = fold_in(s.orelse, text, neg, names, aa)
    return stmts if changed[0] else None


# ---------------------------------------------------------------------------------------------- dead stores
def _pure_value(v):
    if _simple(v) or isinstance(v, ast.Lambda):
        return True
    if isinstance(v, (ast.Tuple, ast.List, ast.Set)):
        return all(_pure_value(e) for e in v.elts)
    if isinstance(v, ast.Dict):
        return all(k is not None and _pure_value(k) for k in v.keys) and all(_pure_value(x) for x in v.values)
    return False


def dead_stores(func):
    """Remove `name = <pure value>` for locals that are never read (left behind by the rewrites above)."""
    loads = set()
    for n in ast.walk(func):
        if isinstance(n, ast.Name) and isinstance(n.ctx, (ast.Load, ast.Del)):
            loads.add(n.id)
        elif isinstance(n, (ast.Global, ast.Nonlocal)):
            loads.update(n.names)
    changed = [False]

    captured = set()
    for n in ast.walk(func):
        if isinstance(n, _DEF) and n is not func:
            for x in ast.walk(n):
                if isinstance(x, ast.Name):
                    captured.add(x.id)

    def blk(stmts, f):
        out = []
        for i_, s in enumerate(stmts):
            if isinstance(s, ast.Assign) and len(s.targets) == 1 and isinstance(s.targets[0], ast.Name) and _pure_value(s.value):
                nm = s.targets[0].id
                if nm not in loads:
                    continue
                nxt = stmts[i_ + 1] if i_ + 1 < len(stmts) else None
                # a store the function leaves at once without reading it (left behind in a threaded tail)
                if isinstance(nxt, ast.Return) and nm not in captured and not any(
                        isinstance(x, ast.Name) and x.id == nm for x in ast.walk(nxt)):
                    continue
            out.append(s)
        if len(out) != len(stmts):
            return out or [ast.copy_location(ast.Pass(), stmts[0])]
        return None
    return _Blocks(blk).run(func)


# ---------------------------------------------------------------------------------------------- driver
def _functions(tree):
    """(function node, enclosing class node or None) for every function of the module, outermost first."""
    out = []

    def rec(body, cls):
        for s in body:
            if isinstance(s, ast.ClassDef):
                rec(s.body, s)
            elif isinstance(s, (ast.FunctionDef, ast.AsyncFunctionDef)):
                out.append((s, cls))
                for n in _walk_own(s.body):
                    if isinstance(n, (ast.FunctionDef, ast.AsyncFunctionDef)):
                        out.append((n, cls))
            elif isinstance(s, (ast.If, ast.Try)):
                for f in ('body', 'orelse', 'finalbody'):
                    rec(getattr(s, f, []) or [], cls)
                for h in getattr(s, 'handlers', []) or []:
                    rec(h.body, cls)
    rec(tree.body, None)
    return out


def record_params(modules, log):
    """def f(self, t) reading only t.a / t.b, every call passing NT(a=.., b=..) built on the spot  ->  the record's fields
    become the parameters (t__a, t__b) and every call passes the values themselves."""
    mods = [m for m in modules.values() if not m.name.startswith('examples')]
    defs = {}
    for m in mods:
        for (fn, cls) in _functions(m.tree):
            defs.setdefault(fn.name, []).append((m, fn, cls))
    changed = False
    for name, lst in sorted(defs.items()):
        if len(lst) != 1 or name.startswith('__'):
            continue
        m, fn, cls = lst[0]
        nts = _namedtuples(m.tree)
        if not nts or fn.args.vararg or fn.args.kwarg or fn.args.kwonlyargs or fn.decorator_list and not all(
                isinstance(d, ast.Name) and d.id in ('classmethod', 'staticmethod') for d in fn.decorator_list):
            continue
        params = [a.arg for a in fn.args.posonlyargs + fn.args.args]
        static = any(isinstance(d, ast.Name) and d.id == 'staticmethod' for d in fn.decorator_list)
        skip = 0 if (cls is None or static) else 1
        ndef = len(fn.args.defaults)
        # every mention of the name must be the callee of a call
        refs = []
        bad = False
        for m2 in mods:
            par = {}
            for x in ast.walk(m2.tree):
                for c in ast.iter_child_nodes(x):
                    par[id(c)] = x
            for x in ast.walk(m2.tree):
                hit = (isinstance(x, ast.Attribute) and x.attr == name) or (isinstance(x, ast.Name) and x.id == name)
                if not hit:
                    continue
                pc = par.get(id(x))
                if isinstance(pc, ast.Call) and pc.func is x and isinstance(x.ctx, ast.Load):
                    refs.append(pc)
                else:
                    bad = True
            for x in ast.walk(m2.tree):
                if isinstance(x, ast.Constant) and x.value == name:
                    bad = True             # getattr(obj, 'name')
        if bad or not refs:
            continue
        for pi in range(skip, len(params)):
            p_ = params[pi]
            if pi >= len(params) - ndef:
                continue
            if p_ in _stores(fn.body):
                continue
            par = {}
            for x in ast.walk(fn):
                for c in ast.iter_child_nodes(x):
                    par[id(c)] = x
            uses = [x for x in ast.walk(fn) if isinstance(x, ast.Name) and x.id == p_]
            if not uses or not all(isinstance(par.get(id(u)), ast.Attribute) and isinstance(par[id(u)].ctx, ast.Load)
                                   for u in uses):
                continue
            used = set(par[id(u)].attr for u in uses)
            cands = [k for k, fl in nts.items() if used <= set(fl)]
            plans = []
            ntname = None
            for c in refs:
                if any(isinstance(a, ast.Starred) for a in c.args) or any(k.arg is None for k in c.keywords):
                    plans = None
                    break
                ai = pi - skip
                if ai < len(c.args):
                    arg, how = c.args[ai], ('pos', ai)
                else:
                    kk = [k for k in c.keywords if k.arg == p_]
                    if not kk:
                        plans = None
                        break
                    arg, how = kk[0].value, ('kw', kk[0])
                if not (isinstance(arg, ast.Call) and isinstance(arg.func, ast.Name) and arg.func.id in cands
                        and not arg.keywords and not any(isinstance(a, ast.Starred) for a in arg.args)
                        and len(arg.args) == len(nts[arg.func.id])):
                    plans = None
                    break
                if ntname not in (None, arg.func.id):
                    plans = None
                    break
                ntname = arg.func.id
                plans.append((c, arg, how))
            if not plans:
                continue
            fields = nts[ntname]
            newnames = ['%s__%s' % (p_, f_) for f_ in fields]
            if any(n_ in params or n_ in _stores(fn.body) for n_ in newnames):
                continue
            # definition
            allargs = fn.args.posonlyargs + fn.args.args
            target_arg = allargs[pi]
            lst_ = fn.args.posonlyargs if target_arg in fn.args.posonlyargs else fn.args.args
            k = lst_.index(target_arg)
            lst_[k:k + 1] = [ast.copy_location(ast.arg(arg=n_, annotation=None), target_arg) for n_ in newnames]

            class RW(ast.NodeTransformer):
                def visit_Attribute(self, a):
                    if isinstance(a.value, ast.Name) and a.value.id == p_ and a.attr in fields:
                        return ast.copy_location(ast.Name(id='%s__%s' % (p_, a.attr), ctx=ast.Load()), a)
                    return self.generic_visit(a)
            fn.body = [RW().visit(b) for b in fn.body]
            for (c, arg, how) in plans:
                if how[0] == 'pos':
                    c.args[how[1]:how[1] + 1] = list(arg.args)
                else:
                    k = c.keywords.index(how[1])
                    c.keywords[k:k + 1] = [ast.keyword(arg=n_, value=v) for n_, v in zip(newnames, arg.args)]
                ast.fix_missing_locations(c)
            ast.fix_missing_locations(fn)
            log.append('record parameter %s of %s.%s replaced by its fields' % (p_, m.name, name))
            changed = True
            break
    return changed


def simple_passes(modules, log):
    """One round of the local passes over every function; True when anything changed."""
    changed = False
    _MODS[0] = modules
    if record_params(modules, log):
        changed = True
    for m in modules.values():
        if m.name.startswith('examples'):
            continue
        _MOD[0] = m
        fs = _FString()
        m.tree = fs.visit(m.tree)
        if fs.changed:
            log.append('f-strings written as str.format calls in %s' % m.name)
            changed = True
        dd = Dedispatch(m.tree)
        ur = Unroll(m.tree)
        for (fn, cls) in _functions(m.tree):
            q = '%s.%s%s' % (m.name, (cls.name + '.') if cls is not None else '', fn.name)
            _CLS[0] = cls
            _QUAL[0] = q
            if dealias(fn, cls, q):
                log.append('local alias of an attribute replaced by the attribute in %s' % q)
                changed = True
            if starargs(fn):
                log.append('star-argument tuple expanded in %s' % q)
                changed = True
            if anyall(fn):
                log.append('any()/all() over a display written as or/and in %s' % q)
                changed = True
            if scalar_replace(fn, m.tree):
                log.append('record of values replaced by its fields in %s' % q)
                changed = True
            for name, f in (('annotated assignment written plainly', _deannotate),
                            ('join of a single piece written as the join', _single_join),
                            ('renamed helper result coalesced with its copy', _coalesce_renamed),
                            ('yield from modelled as a loop', _yield_from),
                            ('next(iter(E), D) written as a loop', _next_default),
                            ('loop over chain(A, B) split', _chain_loop),
                            ('yield of a conditional value split', _yield_ifexp),
                            ('assignment expression hoisted', _dewalrus),
                            ('constant loop unrolled', lambda b, f_, cls=cls: ur.block(b, f_, cls)),
                            ('dispatch table turned into an if-chain', lambda b, f_, cls=cls: dd.block(b, f_, cls)),
                            ('tuple assignment split', _tuple_split),
                            ('constant test folded', _fold_const_tests),
                            ('unreachable statements dropped', _drop_dead),
                            ('repeated test decided', _repeated_tests),
                            ('conditional callee expanded', _callee_ifexp),
                            ('continuation threaded into the tails of a flag-setting statement', _thread),
                            ('callee copy-propagated', _callee_copy),
                            ('single-use temporary forwarded', _temp_forward)):
                for _ in range(4):
                    if _Blocks(f).run(fn):
                        log.append('%s in %s' % (name, q))
                        changed = True
                    else:
                        break
            if _slice_locals(fn):
                log.append('slice objects held in locals written into their subscripts in %s' % q)
                changed = True
            sc = _SliceCall()
            sc.visit(fn)
            if sc.changed:
                log.append('slice() subscripts written with slice syntax in %s' % q)
                changed = True
            if changed and dead_stores(fn):
                log.append('dead stores removed in %s' % q)
            ast.fix_missing_locations(fn)
    return changed
