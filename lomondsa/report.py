"""Run context, obligations, findings, known findings, evidence."""
import hashlib
import json
import os
import time

from .program import Program, AnalysisError, U
from .resolve import Types
from .excflow import Exc
from .cfg import CFG

VERIF = os.path.dirname(os.path.dirname(os.path.abspath(__file__)))

SEEDS = {
    # (class, field) -> types that cannot be inferred from the package itself
}
PARAM_SEEDS = {
    ('persist.persist', 'websocket'): {'inst:websocket.WebSocket'},
}


class Run(object):
    """Everything a rule module needs: program model, resolver, CFGs, obligation log."""

    def __init__(self, root, prop, tier='quick', seed=0):
        self.root = root
        self.prop = prop
        self.tier = tier
        self.seed = seed
        self.t0 = time.time()
        self.prog = Program(root)
        self.types = Types(self.prog, SEEDS)
        for (fq, name), ts in PARAM_SEEDS.items():
            f = self.prog.funcs.get(fq)
            if f is None:
                raise AnalysisError('seeded function vanished: %s' % fq)
            if name not in f.params:
                raise AnalysisError('seeded parameter vanished: %s(%s)' % (fq, name))
            for key in list(self.types.ctxs):
                if key[0] == fq:
                    self.types.local.setdefault((key, name), set()).update(ts)
        if PARAM_SEEDS:
            self.types.solve()
        self.exc = Exc(self.prog, self.types, fault='oserror')
        self.exc_arb = Exc(self.prog, self.types, fault='arbitrary')
        self._cfgs = {}
        self.obligations = []
        self.findings = []
        self.rules = {}
        self.assumptions = []
        self.extra = {}
        self.stats = {'cfg_nodes': 0, 'functions': set(), 'call_sites': 0}

    # ----------------------------------------------------------------- model
    def ctx(self, funcqual, recv=None):
        return self.types.ctx(funcqual, recv)

    def cfg(self, funcqual, recv=None, genexit=False, fault='oserror', injected=frozenset()):
        c = self.ctx(funcqual, recv)
        key = (c.key, genexit, fault, frozenset(injected))
        g = self._cfgs.get(key)
        if g is None:
            exc = self.exc if fault == 'oserror' else self.exc_arb
            g = CFG(c, exc, genexit=genexit, injected=injected)
            g.run = self
            self._cfgs[key] = g
            self.stats['cfg_nodes'] += len(g.nodes)
            self.stats['functions'].add('%s|%s' % c.key)
            self.stats['call_sites'] += sum(len(n.calls) for n in g.nodes)
        return g

    def func(self, qual):
        return self.prog.func(qual)

    def loc(self, funcqual, node):
        f = self.prog.func(funcqual) if isinstance(funcqual, str) else funcqual
        return '%s:%d' % (os.path.relpath(f.module.path, self.root), getattr(node, 'lineno', 0) or f.node.lineno)

    # ----------------------------------------------------------- obligations
    def rule(self, rid, text, minimum=0):
        if getattr(self, '_force_rule', None):
            return
        self.rules[rid] = {'text': text, 'min': minimum, 'count': 0}

    def as_rule(self, rid):
        """Context manager: obligations recorded inside are filed under rule ``rid`` (a rule of another property's
        module reused as a clause of this one)."""
        run = self

        class _Ctx(object):
            def __enter__(self_):
                self_.prev = getattr(run, '_force_rule', None)
                # nested use (a reused rule that itself reuses one): the outermost id - the one of the property being
                # checked - stays in force when the inner id is not a rule of this run
                if self_.prev is not None and rid not in run.rules:
                    return
                run._force_rule = rid

            def __exit__(self_, *a):
                run._force_rule = self_.prev
                return False
        return _Ctx()

    def ob(self, rid, instance, ok, detail='', func=None, node=None, construct=None):
        """Record one obligation.  A failed obligation becomes a finding."""
        if getattr(self, '_force_rule', None):
            rid = self._force_rule
        if rid not in self.rules:
            raise AnalysisError('unregistered rule %s' % rid)
        self.rules[rid]['count'] += 1
        where = ''
        if func is not None:
            fq = func if isinstance(func, str) else func.qual
            try:
                where = self.loc(fq, node) if node is not None else self.loc(fq, self.prog.func(fq).node)
            except AnalysisError:
                where = fq
        else:
            fq = ''
        o = {'rule': rid, 'instance': instance, 'verdict': 'discharged' if ok else 'VIOLATED',
             'detail': detail, 'where': where}
        self.obligations.append(o)
        if not ok:
            if construct is None:
                construct = U(node) if node is not None and not isinstance(node, str) else (node or instance)
            construct = ' '.join(str(construct).split())[:300]
            key = '%s|%s|%s' % (rid, fq, construct)
            self.findings.append({
                'property': self.prop, 'rule': rid, 'function': fq, 'construct': construct,
                'where': where, 'message': '%s: %s' % (instance, detail), 'key': key,
            })
        return ok

    def check_minimums(self):
        violated = set(f['rule'] for f in self.findings)
        for rid, r in self.rules.items():
            if rid in violated:
                continue
            if r['count'] < r['min']:
                raise AnalysisError('rule %s matched %d instance(s), fewer than the %d confirmed by hand '
                                    '- the rule would pass vacuously' % (rid, r['count'], r['min']))

    def assume(self, text):
        if text not in self.assumptions:
            self.assumptions.append(text)


def load_known():
    path = os.path.join(VERIF, 'known_findings.json')
    with open(path) as f:
        return json.load(f)


def finish(run, mod, extra_coverage=None, selftest=None, aborted=None):
    """Write evidence, print VIOLATION / KNOWN-FINDING lines, return exit code.  ``aborted``: the text of an
    AnalysisError that stopped the rule functions after violations had already been established - those are reported
    (a violation found is a violation whatever the analyser could not make sense of later)."""
    if aborted is None:
        run.check_minimums()
    else:
        print('ANALYSIS-ERROR after the violations below: %s' % aborted)
    known = {k['key']: k for k in load_known().get('known', []) if k.get('property') == run.prop}
    evdir = os.environ.get('LOMOND_EVIDENCE_DIR') or os.path.join(VERIF, 'evidence')
    fdir = os.path.join(evdir, 'findings')
    os.makedirs(fdir, exist_ok=True)
    new = []
    known_hit = []
    for f in run.findings:
        if f['key'] in known:
            known_hit.append((f, known[f['key']]))
        else:
            new.append(f)
    seen = set()
    for f, k in known_hit:
        if f['key'] in seen:
            continue
        seen.add(f['key'])
        print('KNOWN-FINDING: property=%s %s [%s at %s]' % (run.prop, k['what_fails'], f['rule'], f['where']))
    seen = set()
    for f in new:
        if f['key'] in seen:
            continue
        seen.add(f['key'])
        h = hashlib.sha256(f['key'].encode()).hexdigest()[:12]
        path = os.path.join(fdir, '%s-%s.json' % (run.prop, h))
        with open(path, 'w') as fh:
            json.dump(f, fh, indent=1)
        print('  %s %s in %s: %s' % (f['rule'], f['where'], f['function'], f['message']))
        print('    construct: %s' % f['construct'])
        print('VIOLATION property=%s replay=%s' % (run.prop, path))
    ob = run.obligations
    discharged = sum(1 for o in ob if o['verdict'] == 'discharged')
    by_rule = {}
    for o in ob:
        by_rule.setdefault(o['rule'], []).append(o)
    samples = []
    for rid in sorted(by_rule):
        for o in by_rule[rid][:2]:
            samples.append(o)
    cov = {
        'explanation': mod.EXPLANATION,
        'obligations': len(ob),
        'discharged': discharged,
        'evaluations': len(ob),
        'distinct_nontrivial': len(set((o['rule'], o['instance']) for o in ob)),
        'rule': 'one obligation per rule instance found in the current /repo sources (call site, store, '
                'path set, table entry); distinct = distinct (rule, instance) pairs',
        'rules': {rid: {'text': r['text'], 'instances': r['count'], 'min_instances': r['min']}
                  for rid, r in sorted(run.rules.items())},
        'samples': samples,
        'not_decided': getattr(mod, 'NOT_DECIDED', ''),
        'functions_analysed': sorted(run.stats['functions']),
        'cfg_nodes': run.stats['cfg_nodes'],
        'call_sites_in_cfgs': run.stats['call_sites'],
        'type_contexts': len(run.types.ctxs),
        'type_fixpoint_iterations': run.types.iterations,
        'files': run.prog.files_digest(),
        'pruned_dead_code': sorted(set(p for m in run.prog.modules.values() for p in m.pruned)),
        'helpers_inlined': list(run.prog.inlined),
        'analysis_aborted': aborted,
        'known_findings_reported': sorted(set(f['key'] for f, _ in known_hit)),
        'checker_cmd': './check %s --tier %s' % (run.prop, run.tier),
        'trusted_base': ['CPython ast module', 'lomondsa CFG/dominator/exception-edge construction',
                         'external may-raise table in lomondsa/excflow.py'],
    }
    cov.update(run.extra)
    if extra_coverage:
        cov.update(extra_coverage)
    if selftest is not None:
        cov['selftest'] = selftest
    ev = {
        'property_id': run.prop, 'tier': run.tier, 'seed': run.seed, 'level': getattr(mod, 'LEVEL', 'other'),
        'coverage': cov,
        'assumptions': list(getattr(mod, 'ASSUMPTIONS', [])) + run.assumptions + run.prog.assumptions
        + run.exc.assumptions,
        'wall_s': round(time.time() - run.t0, 3),
        'violations': len(set(f['key'] for f in new)),
    }
    with open(os.path.join(evdir, '%s.json' % run.prop), 'w') as fh:
        json.dump(ev, fh, indent=1, sort_keys=False)
    print('%s %s: %d obligations, %d discharged, %d known finding(s), %d new violation(s), %.2fs' % (
        run.prop, run.tier, len(ob), discharged, len(set(f['key'] for f, _ in known_hit)),
        len(set(f['key'] for f in new)), time.time() - run.t0))
    return 1 if new else 0
