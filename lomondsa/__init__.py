"""lomondsa - repository-specific static analysis for dataplicity-lomond.

Everything in here reads /repo/lomond/*.py as text/AST on every run.  Nothing
under the analysed tree is imported or executed.
"""
