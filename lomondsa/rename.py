"""Undo consistent renames of private identifiers (alpha-normalisation against the pinned tree).

Names are not semantics: `self._gen` renamed to `self._coroutine` everywhere changes nothing, but the rules name their
anchors.  known_funcs.SHAPES records, for every function of the pinned tree, a structural hash of its body in which the
private identifiers (attributes / names / nested function names that start with one underscore) are replaced by
position placeholders, together with the sequence of those identifiers.  A function of the current tree whose
placeholder hash equals the pinned one differs from it by renaming only; aligning the two identifier sequences yields
old -> new pairs.  A pair is applied (new spelled back as old, throughout the package) when every function that votes
agrees, the old name no longer occurs anywhere and the new name did not occur in the pinned tree.  Renamed private
*functions* are matched the same way among the functions of the same scope that are not in the pinned table."""
import ast
import hashlib

from .known_funcs import SHAPES, PRIVATE_NAMES


def _is_private(name):
    return name.startswith('_') and not name.startswith('__')


def shape(fn):
    """(hash, [private identifiers in first-occurrence order of a deterministic walk]) of a function node."""
    seq = []
    index = {}

    def ph(name):
        if name not in index:
            index[name] = len(index)
            seq.append(name)
        return '\xa7%d' % index[name]

    def dump(n):
        if isinstance(n, ast.AST):
            parts = [type(n).__name__]
            for f, v in ast.iter_fields(n):
                if f in ('lineno', 'col_offset', 'end_lineno', 'end_col_offset', 'ctx', 'type_comment'):
                    continue
                if isinstance(n, ast.Attribute) and f == 'attr' and _is_private(v):
                    parts.append(ph(v))
                elif isinstance(n, ast.Name) and f == 'id' and _is_private(v):
                    parts.append(ph(v))
                elif isinstance(n, (ast.FunctionDef, ast.ClassDef)) and f == 'name' and _is_private(v):
                    parts.append(ph(v))
                elif isinstance(n, ast.arg) and f == 'arg' and _is_private(v):
                    parts.append(ph(v))
                elif isinstance(n, ast.Constant) and f == 'value' and isinstance(v, str) and n is doc:
                    parts.append('doc')
                else:
                    parts.append(dump(v))
            return '(' + ' '.join(parts) + ')'
        if isinstance(n, list):
            return '[' + ' '.join(dump(x) for x in n) + ']'
        return repr(n)
    doc = None
    if fn.body and isinstance(fn.body[0], ast.Expr) and isinstance(fn.body[0].value, ast.Constant) \
            and isinstance(fn.body[0].value.value, str):
        doc = fn.body[0].value
    # the function's own name is not part of the shape (it may be what was renamed)
    text = dump([fn.args, fn.body, fn.decorator_list])
    return hashlib.sha256(text.encode('utf-8')).hexdigest()[:16], seq


def body_hash(fn):
    """Hash of the body alone (docstring ignored, identifiers kept): equal for a method and for the same statements
    moved into a closure whose free variables are named like the method's parameters."""
    body = list(fn.body)
    if body and isinstance(body[0], ast.Expr) and isinstance(body[0].value, ast.Constant) and isinstance(body[0].value.value, str):
        body = body[1:]
    text = ';'.join(ast.dump(b) for b in body)
    return hashlib.sha256(text.encode('utf-8')).hexdigest()[:16]


def functions(modules):
    """{qual: (FunctionDef, scope qual)} for every function of the package (methods, module functions, nested)."""
    out = {}

    def rec(body, prefix):
        for s in body:
            if isinstance(s, ast.ClassDef):
                rec(s.body, prefix + '.' + s.name)
            elif isinstance(s, ast.FunctionDef):
                q = prefix + '.' + s.name
                out[q] = (s, prefix)
                for n in ast.walk(s):
                    if isinstance(n, ast.FunctionDef) and n is not s:
                        out[q + '.' + n.name] = (n, q)
            elif isinstance(s, (ast.If, ast.Try)):
                for f in ('body', 'orelse', 'finalbody'):
                    rec(getattr(s, f, []) or [], prefix)
                for h in getattr(s, 'handlers', []) or []:
                    rec(h.body, prefix)
    for m in modules.values():
        if m.name.startswith('examples'):
            continue
        rec(m.tree.body, m.name)
    return out


def undo_renames(modules, log):
    cur = functions(modules)
    present = set()
    for m in modules.values():
        if m.name.startswith('examples'):
            continue
        for n in ast.walk(m.tree):
            if isinstance(n, ast.Attribute):
                present.add(n.attr)
            elif isinstance(n, ast.Name):
                present.add(n.id)
            elif isinstance(n, (ast.FunctionDef, ast.ClassDef)):
                present.add(n.name)
            elif isinstance(n, ast.arg):
                present.add(n.arg)
    votes = {}          # new -> {old: count}
    # (1) functions still known by name
    for q, (fn, scope) in cur.items():
        if q not in SHAPES:
            continue
        h, seq = shape(fn)
        ph, pseq = SHAPES[q][:2]
        if h == ph and len(seq) == len(pseq) and seq != pseq:
            for old, new in zip(pseq, seq):
                if old != new:
                    votes.setdefault(new, {}).setdefault(old, 0)
                    votes[new][old] += 1
    # (2) functions whose qualified name vanished: match unknown functions of the same scope by shape
    missing = {}
    for q in SHAPES:
        if q not in cur:
            scope = q.rsplit('.', 1)[0]
            missing.setdefault(scope, []).append(q)
    for q, (fn, scope) in cur.items():
        if q in SHAPES or scope not in missing:
            continue
        h, seq = shape(fn)
        cands = [mq for mq in missing[scope] if SHAPES[mq][0] == h]
        if len(cands) == 1:
            old = cands[0].rsplit('.', 1)[1]
            new = fn.name
            if _is_private(old) and _is_private(new):
                votes.setdefault(new, {}).setdefault(old, 0)
                votes[new][old] += 2
                ph, pseq = SHAPES[cands[0]][:2]
                if len(seq) == len(pseq):
                    for o2, n2 in zip(pseq, seq):
                        if o2 != n2:
                            votes.setdefault(n2, {}).setdefault(o2, 0)
                            votes[n2][o2] += 1
    lifted = _lift_closures(modules, cur, log)
    mapping = {}
    for new, olds in votes.items():
        if len(olds) != 1:
            continue
        old = next(iter(olds))
        if old in present or new in PRIVATE_NAMES or not _is_private(new) or not _is_private(old):
            continue
        mapping[new] = old
    # one-to-one
    inv = {}
    for new, old in mapping.items():
        inv.setdefault(old, []).append(new)
    mapping = {new: old for new, old in mapping.items() if len(inv[old]) == 1}
    if not mapping:
        return lifted
    for m in modules.values():
        if m.name.startswith('examples'):
            continue
        for n in ast.walk(m.tree):
            if isinstance(n, ast.Attribute) and n.attr in mapping:
                n.attr = mapping[n.attr]
            elif isinstance(n, ast.Name) and n.id in mapping:
                n.id = mapping[n.id]
            elif isinstance(n, (ast.FunctionDef, ast.ClassDef)) and n.name in mapping:
                n.name = mapping[n.name]
            elif isinstance(n, ast.arg) and n.arg in mapping:
                n.arg = mapping[n.arg]
            elif isinstance(n, ast.keyword) and n.arg in mapping:
                n.arg = mapping[n.arg]
    for new, old in sorted(mapping.items()):
        log.append('private identifier %s spelled back as %s (consistent rename of the pinned tree)' % (new, old))
    return True


def _lift_closures(modules, cur, log):
    """A method of the pinned tree that vanished while a parameterless nested function with exactly its body appeared in
    another method of the same class: the method was turned into a closure over same-named variables.  Lift it back:
    the method is re-created with the pinned parameter list and calls of the closure become self.m(p1, ..., pk)."""
    changed = False
    for q, entry in SHAPES.items():
        if q in cur or len(entry) < 4:
            continue
        bh, args_src = entry[2], entry[3]
        scope, name = q.rsplit('.', 1)
        for q2, (fn2, scope2) in list(cur.items()):
            if q2 in SHAPES or not scope2.startswith(scope + '.') or scope2.count('.') != scope.count('.') + 1:
                continue
            if fn2.args.args or fn2.args.vararg or fn2.args.kwarg or fn2.args.kwonlyargs or body_hash(fn2) != bh:
                continue
            host = cur.get(scope2)
            if host is None:
                continue
            hostfn = host[0]
            try:
                proto = ast.parse('def %s(%s):\n    pass' % (name, args_src)).body[0]
            except SyntaxError:
                continue
            params = [a.arg for a in proto.args.args]
            if not params or params[0] != 'self':
                continue
            hparams = set(a.arg for a in hostfn.args.args)
            stored = set(n.id for n in ast.walk(hostfn) if isinstance(n, ast.Name) and isinstance(n.ctx, ast.Store))
            if any(p not in hparams or p in stored for p in params[1:]) or 'self' not in hparams:
                continue
            # class node
            cls = None
            for m in modules.values():
                for c in ast.walk(m.tree):
                    if isinstance(c, ast.ClassDef) and any(x is hostfn for x in c.body):
                        cls = c
            if cls is None:
                continue
            proto.body = fn2.body
            ast.copy_location(proto, fn2)
            ast.fix_missing_locations(proto)
            cls.body.insert(cls.body.index(hostfn), proto)
            local = fn2.name

            class RW(ast.NodeTransformer):
                def visit_FunctionDef(self, n):
                    if n is fn2:
                        return None
                    self.generic_visit(n)
                    return n

                def visit_Call(self, c):
                    self.generic_visit(c)
                    if isinstance(c.func, ast.Name) and c.func.id == local and not c.args and not c.keywords:
                        return ast.copy_location(ast.Call(
                            func=ast.Attribute(value=ast.Name(id='self', ctx=ast.Load()), attr=name, ctx=ast.Load()),
                            args=[ast.Name(id=p, ctx=ast.Load()) for p in params[1:]], keywords=[]), c)
                    return c
            RW().visit(hostfn)
            ast.fix_missing_locations(hostfn)
            log.append('closure %s lifted back to the method %s it was made from' % (q2, q))
            changed = True
            break
    return changed
