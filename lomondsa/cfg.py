"""Statement-level control-flow graphs with exception (and GeneratorExit) edges.

Built by hand for exactly the statement kinds the package uses.  Short-circuit
conditions are split into atomic test nodes; ``finally`` bodies are copied per
continuation kind; yields inside statements get their own node placed before
the statement's remaining evaluation.
"""
import ast

from .program import AnalysisError, U, walk_no_nested, py_const


def never_returns(exc, ctx):
    """True if no path through the function reaches a normal return."""
    cache = exc.__dict__.setdefault('_noreturn', {})
    if ctx.key in cache:
        return cache[ctx.key]
    cache[ctx.key] = False          # recursion guard
    g = CFG(ctx, exc)
    r = g.exit not in g.reachable([g.entry])
    cache[ctx.key] = r
    return r


class Node(object):
    __slots__ = ('id', 'kind', 'ast', 'stmt', 'calls', 'succ', 'pred', 'frames', 'note', 'exprs')

    def __init__(self, id, kind, astnode, stmt, frames, note=''):
        self.id = id
        self.kind = kind
        self.ast = astnode
        self.stmt = stmt
        self.calls = []
        self.exprs = []
        self.succ = []   # (node, label)
        self.pred = []   # (node, label)
        self.frames = frames
        self.note = note

    @property
    def line(self):
        return getattr(self.ast, 'lineno', None) or getattr(self.stmt, 'lineno', 0)

    def text(self):
        if self.kind in ('entry', 'exit', 'raise'):
            return '<%s>' % self.kind
        if self.kind == 'handler':
            return 'except %s' % (U(self.ast.type) if self.ast.type is not None else '')
        if self.kind == 'for':
            return 'for %s in %s' % (U(self.ast.target), U(self.ast.iter))
        if self.kind == 'with':
            return 'with ' + ', '.join(U(i.context_expr) for i in self.ast.items)
        return U(self.ast)

    def __repr__(self):
        return '<n%d %s L%s %s>' % (self.id, self.kind, self.line, self.text()[:50])


class Frame(object):
    def __init__(self, kind, **kw):
        self.kind = kind     # 'loop' | 'try' | 'finally' | 'with' | 'handler'
        self.__dict__.update(kw)


class CFG(object):
    def __init__(self, ctx, exc, genexit=False, injected=frozenset()):
        self.ctx = ctx
        self.exc = exc
        self.types = exc.types
        self.genexit = genexit
        self.injected = set(injected)
        self.nodes = []
        self.entry = self._node('entry', None, None, ())
        self.exit = self._node('exit', None, None, ())
        self.raise_exit = self._node('raise', None, None, ())
        self._fin_cache = {}
        preds = self._stmts(ctx.func.node.body, [(self.entry, 'next')], ())
        self._link(preds, self.exit)
        self._dom = None
        self._pdom = None

    # ------------------------------------------------------------ primitives
    def _node(self, kind, astnode, stmt, frames, note=''):
        n = Node(len(self.nodes), kind, astnode, stmt, tuple(frames), note)
        self.nodes.append(n)
        return n

    def _edge(self, a, b, label):
        for (x, l) in a.succ:
            if x is b and l == label:
                return
        a.succ.append((b, label))
        b.pred.append((a, label))

    def _link(self, preds, n):
        for (p, label) in preds:
            self._edge(p, n, label)

    def _calls_in(self, e, skip=()):
        out = []
        for n in walk_no_nested(e):
            if isinstance(n, ast.Call):
                out.append(n)
        skip_ids = set()
        for s in skip:
            for n in walk_no_nested(s):
                skip_ids.add(id(n))
        out = [c for c in out if id(c) not in skip_ids]
        out.sort(key=lambda c: (c.lineno, c.col_offset))
        return out

    def _caught(self, frames):
        """Names bound by enclosing except-handlers -> tokens (for re-raise / throw typing)."""
        caught = {}
        for f in frames:
            if f.kind == 'handler':
                caught['<current>'] = f.tokens
                if f.name:
                    caught[f.name] = f.tokens
        return caught

    def _add_raises(self, n, frames, exprs=(), extra=()):
        toks = set(extra)
        caught = self._caught(frames)
        for e in exprs:
            toks |= self.exc.raises_expr(e, self.ctx, caught)
        for t in sorted(toks):
            self._raise_to(n, t, frames, 'exc:' + t)

    # ------------------------------------------------------------ exceptions
    def _raise_to(self, n, tok, frames, label):
        """Route an exception ``tok`` raised at node ``n`` through the frame stack."""
        frames = list(frames)
        cur, curlabel = n, label
        i = len(frames) - 1
        while i >= 0:
            f = frames[i]
            if f.kind == 'try':
                for (h, htoks, hnode) in f.handlers:
                    c = self.exc.catches(htoks, tok)
                    if c == 'full':
                        self._edge(cur, hnode, curlabel)
                        hnode.note = (hnode.note + ' ' + tok).strip()
                        return
                    if c == 'partial':
                        self._edge(cur, hnode, curlabel)
                        hnode.note = (hnode.note + ' ' + tok + '(partial)').strip()
            elif f.kind == 'finally':
                key = (id(f), 'exc', tok)
                ent = self._fin_cache.get(key)
                if ent is None:
                    outer = tuple(frames[:i])
                    start = self._node('finally', f.stmt, f.stmt, outer, note='exc:' + tok)
                    self._fin_cache[key] = start
                    ends = self._stmts(f.stmt.finalbody, [(start, 'next')], outer)
                    for (e, l) in ends:
                        self._raise_to(e, tok, outer, 'exc:' + tok)
                    ent = start
                self._edge(cur, ent, curlabel)
                return
            i -= 1
        self._edge(cur, self.raise_exit, curlabel)

    def _jump(self, preds, frames, kind):
        """Route return / break / continue through finally copies; returns (open ends, remaining frames)."""
        frames = list(frames)
        i = len(frames) - 1
        while i >= 0:
            f = frames[i]
            if f.kind == 'finally':
                outer = tuple(frames[:i])
                key = (id(f), kind)
                start = self._node('finally', f.stmt, f.stmt, outer, note=kind)
                self._link(preds, start)
                preds = self._stmts(f.stmt.finalbody, [(start, 'next')], outer)
            elif f.kind == 'loop' and kind in ('break', 'continue'):
                if kind == 'break':
                    f.breaks.extend(preds)
                else:
                    self._link(preds, f.head)
                return
            i -= 1
        if kind == 'return':
            self._link(preds, self.exit)
        else:
            raise AnalysisError('%s outside loop' % kind)

    # ------------------------------------------------------------ conditions
    def _cond(self, e, preds, frames, stmt):
        """Returns (true_preds, false_preds)."""
        if isinstance(e, ast.BoolOp):
            if isinstance(e.op, ast.And):
                falses = []
                t = preds
                for v in e.values:
                    t, f = self._cond(v, t, frames, stmt)
                    falses.extend(f)
                return t, falses
            else:
                trues = []
                f = preds
                for v in e.values:
                    t, f = self._cond(v, f, frames, stmt)
                    trues.extend(t)
                return trues, f
        if isinstance(e, ast.UnaryOp) and isinstance(e.op, ast.Not):
            t, f = self._cond(e.operand, preds, frames, stmt)
            return f, t
        if isinstance(e, ast.Compare) and len(e.ops) > 1 and all(
                isinstance(x, (ast.Name, ast.Constant, ast.Attribute)) for x in [e.left] + list(e.comparators)):
            # a <= x <= b  ==  a <= x and x <= b  (operands are plain reads)
            parts = []
            left = e.left
            for op, right in zip(e.ops, e.comparators):
                parts.append(ast.copy_location(ast.Compare(left=left, ops=[op], comparators=[right]), e))
                left = right
            return self._cond(ast.copy_location(ast.BoolOp(op=ast.And(), values=parts), e), preds, frames, stmt)
        v = py_const(e, self.ctx.func.module)
        if v is None and isinstance(e, ast.Constant):
            v = bool(e.value)
        if v is True:
            return preds, []
        if v is False:
            return [], preds
        n = self._node('test', e, stmt, frames)
        n.calls = self._calls_in(e)
        n.exprs = [e]
        self._link(preds, n)
        self._add_raises(n, frames, [e])
        return [(n, 'true')], [(n, 'false')]

    # ------------------------------------------------------------ statements
    def _stmts(self, body, preds, frames):
        for s in body:
            if not preds:
                break
            preds = self._stmt(s, preds, frames)
        return preds

    def _simple(self, s, preds, frames, extra=()):
        """A simple statement, with its embedded yields split off."""
        yields = [n for n in walk_no_nested(s) if isinstance(n, (ast.Yield, ast.YieldFrom))]
        yields.sort(key=lambda y: (y.lineno, y.col_offset))
        for y in yields:
            yn = self._node('yield', y, s, frames)
            if y.value is not None:
                yn.calls = self._calls_in(y.value)
                yn.exprs = [y.value]
            self._link(preds, yn)
            # evaluation of the yielded value may raise *before* suspension
            if y.value is not None:
                self._add_raises(yn, frames, [y.value])
            susp = set(self.injected)
            if self.genexit:
                susp.add('GeneratorExit')
            for t in sorted(susp):
                self._raise_to(yn, t, frames, 'exc:' + t)
            preds = [(yn, 'next')]
        if isinstance(s, ast.Expr) and yields and s.value is yields[-1] and len(yields) == 1:
            return preds
        n = self._node('stmt', s, s, frames)
        n.calls = self._calls_in(s, skip=[y.value for y in yields if y.value is not None])
        n.exprs = [s]
        self._link(preds, n)
        caught = self._caught(frames)
        toks = set(extra)
        for c in n.calls:
            toks |= self.exc.raises_call(c, self.ctx, caught)
        for t in sorted(toks):
            self._raise_to(n, t, frames, 'exc:' + t)
        if any(self._never_returns(c) for c in n.calls):
            n.note = 'noreturn'
            return []
        return [(n, 'next')]

    def _never_returns(self, call):
        ts = self.types.call_targets(call, self.ctx)
        if not ts:
            return False
        for t in ts:
            if t.kind != 'func' or t.func.is_generator:
                return False
            c = self.exc.ctx_of_target(t)
            if c is None or not never_returns(self.exc, c):
                return False
        return True

    def _stmt(self, s, preds, frames):
        module = self.ctx.func.module
        if isinstance(s, (ast.FunctionDef, ast.ClassDef)):
            n = self._node('def', s, s, frames)
            self._link(preds, n)
            return [(n, 'next')]
        if isinstance(s, (ast.Import, ast.ImportFrom, ast.Global, ast.Nonlocal)):
            return preds
        if isinstance(s, ast.Pass):
            n = self._node('stmt', s, s, frames)
            self._link(preds, n)
            return [(n, 'next')]
        if isinstance(s, ast.If):
            t, f = self._cond(s.test, preds, frames, s)
            out = self._stmts(s.body, t, frames) if t else []
            out = list(out)
            out += self._stmts(s.orelse, f, frames) if f else []
            return out
        if isinstance(s, ast.While):
            head = self._node('loophead', s, s, frames)
            self._link(preds, head)
            lf = Frame('loop', head=head, breaks=[], stmt=s)
            t, f = self._cond(s.test, [(head, 'next')], frames, s)
            body_end = self._stmts(s.body, t, frames + (lf,)) if t else []
            self._link(body_end, head)
            out = self._stmts(s.orelse, f, frames) if f else []
            return list(out) + lf.breaks
        if isinstance(s, ast.For):
            init = self._node('forinit', s.iter, s, frames)
            init.calls = self._calls_in(s.iter)
            init.exprs = [s.iter]
            self._link(preds, init)
            self._add_raises(init, frames, [s.iter])
            head = self._node('for', s, s, frames)
            self._link([(init, 'next')], head)
            self._add_raises(head, frames, [], extra=self.exc.iter_raises(s.iter, self.ctx))
            lf = Frame('loop', head=head, breaks=[], stmt=s)
            body_end = self._stmts(s.body, [(head, 'body')], frames + (lf,))
            self._link(body_end, head)
            out = self._stmts(s.orelse, [(head, 'exhausted')], frames)
            return list(out) + lf.breaks
        if isinstance(s, ast.Break):
            n = self._node('stmt', s, s, frames)
            self._link(preds, n)
            self._jump([(n, 'break')], frames, 'break')
            return []
        if isinstance(s, ast.Continue):
            n = self._node('stmt', s, s, frames)
            self._link(preds, n)
            self._jump([(n, 'continue')], frames, 'continue')
            return []
        if isinstance(s, ast.Return):
            ends = self._simple(s, preds, frames)
            self._jump([(e, 'return') for (e, _) in ends], frames, 'return')
            return []
        if isinstance(s, ast.Raise):
            n = self._node('stmt', s, s, frames)
            n.calls = self._calls_in(s)
            n.exprs = [s]
            self._link(preds, n)
            caught = self._caught(frames)
            toks = self.exc.raises_stmt(s, self.ctx, caught, frozenset())
            for t in sorted(toks):
                self._raise_to(n, t, frames, 'exc:' + t)
            return []
        if isinstance(s, ast.With):
            n = self._node('with', s, s, frames)
            for it in s.items:
                n.calls += self._calls_in(it.context_expr)
                n.exprs.append(it.context_expr)
            self._link(preds, n)
            self._add_raises(n, frames, [it.context_expr for it in s.items])
            wf = Frame('with', stmt=s, node=n)
            return self._stmts(s.body, [(n, 'next')], frames + (wf,))
        if isinstance(s, ast.Try):
            return self._try(s, preds, frames)
        if isinstance(s, ast.Assert):
            return preds
        if isinstance(s, ast.Expr) and isinstance(s.value, ast.Constant) and isinstance(s.value.value, str):
            return preds
        return self._simple(s, preds, frames)

    def _try(self, s, preds, frames):
        inner = frames
        ff = None
        if s.finalbody:
            ff = Frame('finally', stmt=s)
            inner = inner + (ff,)
        handlers = []
        for h in s.handlers:
            htoks = self.exc.handler_tokens(h, self.ctx)
            hn = self._node('handler', h, s, inner)
            handlers.append((h, htoks, hn))
        tf = Frame('try', stmt=s, handlers=handlers)
        body_end = self._stmts(s.body, preds, inner + (tf,))
        out = list(self._stmts(s.orelse, body_end, inner)) if body_end else []
        for (h, htoks, hn) in handlers:
            if not hn.pred:
                continue
            # tokens that actually reach this handler
            ent = sorted(set(l[4:] for (_, l) in hn.pred if l.startswith('exc:')))
            ent2 = []
            for t in ent:
                if self.exc.catches(htoks, t) == 'full':
                    ent2.append(t)
                else:
                    for ht in htoks:
                        if self.exc.base(t) in self.exc.supers(ht):
                            ent2.append(ht + '+')
            hf = Frame('handler', stmt=h, name=h.name, tokens=sorted(set(ent2)), node=hn)
            out += self._stmts(h.body, [(hn, 'next')], inner + (hf,))
        if ff is not None and out:
            start = self._node('finally', s, s, frames, note='normal')
            self._link(out, start)
            out = self._stmts(s.finalbody, [(start, 'next')], frames)
        return out

    # ---------------------------------------------------------------- queries
    def reachable(self, srcs, avoid=(), skip_edge=None, labels=None):
        """Nodes reachable from srcs (srcs included) without entering ``avoid`` nodes."""
        avoid = set(avoid)
        seen = set()
        stack = [s for s in srcs if s not in avoid]
        while stack:
            n = stack.pop()
            if n in seen:
                continue
            seen.add(n)
            for (m, l) in n.succ:
                if m in avoid or m in seen:
                    continue
                if skip_edge is not None and skip_edge(n, m, l):
                    continue
                if labels is not None and not labels(l):
                    continue
                stack.append(m)
        return seen

    def succ_reach(self, n, avoid=(), skip_edge=None):
        """Nodes reachable *after* n (n itself only if on a cycle)."""
        starts = []
        for (m, l) in n.succ:
            if skip_edge is not None and skip_edge(n, m, l):
                continue
            starts.append(m)
        return self.reachable(starts, avoid, skip_edge)

    def dominators(self):
        if self._dom is not None:
            return self._dom
        live = self.reachable([self.entry])
        nodes = [n for n in self.nodes if n in live]
        dom = {n: set(nodes) for n in nodes}
        dom[self.entry] = {self.entry}
        changed = True
        while changed:
            changed = False
            for n in nodes:
                if n is self.entry:
                    continue
                ps = [p for (p, _) in n.pred if p in dom]
                if not ps:
                    continue
                new = set.intersection(*[dom[p] for p in ps]) | {n}
                if new != dom[n]:
                    dom[n] = new
                    changed = True
        self._dom = dom
        return dom

    def dominates(self, a, b):
        d = self.dominators()
        return b in d and a in d[b]

    def edge_guards(self, n):
        """All (test node, label) edges that every entry->n path must take."""
        out = []
        live = self.reachable([self.entry])
        if n not in live:
            return out
        for t in self.nodes:
            if t.kind not in ('test', 'for') or t not in live:
                continue
            for lab in set(l for (_, l) in t.succ if not l.startswith('exc:')):
                r = self.reachable([self.entry], skip_edge=lambda a, b, l, t=t, lab=lab: a is t and l == lab)
                if n not in r:
                    out.append((t, lab))
        return out

    def nodes_with_call(self, pred):
        out = []
        for n in self.nodes:
            for c in n.calls:
                if pred(c, n):
                    out.append((n, c))
        return out

    def yields(self):
        return [n for n in self.nodes if n.kind == 'yield']

    def live_nodes(self):
        live = self.reachable([self.entry])
        return [n for n in self.nodes if n in live]

    def dump(self):
        lines = []
        for n in self.nodes:
            lines.append('%r -> %s' % (n, ', '.join('n%d[%s]' % (m.id, l) for (m, l) in n.succ)))
        return '\n'.join(lines)
