"""Constant folding of pure expressions over literals, class and module constants."""
import ast
import operator

from .program import U

_BIN = {ast.Add: operator.add, ast.Sub: operator.sub, ast.Mult: operator.mul, ast.LShift: operator.lshift, ast.BitXor: operator.xor,
        ast.RShift: operator.rshift, ast.BitOr: operator.or_, ast.BitAnd: operator.and_,
        ast.Pow: operator.pow, ast.FloorDiv: operator.floordiv, ast.Mod: operator.mod}

NOCONST = object()


def class_consts(run, qual):
    """Interpret a class body: NAME = <const>, NAME.update(range(..)) -> dict name -> value."""
    c = run.prog.cls(qual)
    env = {}
    for s in c.body_stmts:
        if isinstance(s, ast.Assign) and len(s.targets) == 1 and isinstance(s.targets[0], ast.Name):
            v = _fold(run, s.value, None, env, c.module)
            if v is not NOCONST:
                env[s.targets[0].id] = v
        elif isinstance(s, ast.Expr) and isinstance(s.value, ast.Call):
            call = s.value
            f = call.func
            if isinstance(f, ast.Attribute) and isinstance(f.value, ast.Name) and f.value.id in env \
                    and isinstance(env[f.value.id], set):
                args = [_fold(run, a, None, env, c.module) for a in call.args]
                if NOCONST in args:
                    env.pop(f.value.id)
                    continue
                if f.attr == 'update':
                    for a in args:
                        env[f.value.id] |= set(a)
                elif f.attr == 'add':
                    env[f.value.id].add(args[0])
                elif f.attr in ('discard', 'remove'):
                    env[f.value.id].discard(args[0])
                elif f.attr == 'difference_update':
                    for a in args:
                        env[f.value.id] -= set(a)
                else:
                    env.pop(f.value.id)
    return env


def module_consts(run, modname):
    busy = run.__dict__.setdefault('_mc_busy', set())
    if modname in busy:
        return {}               # a global of this module that is not a constant, looked up while folding the module
    busy.add(modname)
    try:
        return _module_consts(run, modname)
    finally:
        busy.discard(modname)


def _module_consts(run, modname):
    m = run.prog.modules[modname]
    env = {}
    for s in m.live:
        if isinstance(s, ast.Assign) and len(s.targets) == 1 and isinstance(s.targets[0], ast.Name):
            v = _fold(run, s.value, None, env, m)
            if v is not NOCONST:
                env[s.targets[0].id] = v
            else:
                env.pop(s.targets[0].id, None)
    return env


def fold(run, e, ctx, env=None):
    module = ctx.func.module if ctx is not None else None
    v = _fold(run, e, ctx, env or {}, module)
    return None if v is NOCONST else v


def _fold(run, e, ctx, env, module):
    if isinstance(e, ast.Constant):
        return e.value
    if isinstance(e, ast.Name):
        if e.id in env:
            return env[e.id]
        if module is not None:
            r = run.prog.lookup(module, e.id)
            if r and r[0] == 'global':
                mc = module_consts(run, r[1])
                if r[2] in mc:
                    return mc[r[2]]
        return NOCONST
    if isinstance(e, ast.Attribute):
        # Class.CONST or module.CONST or self.CONST
        types = set()
        if ctx is not None:
            types = run.types.expr(e.value, ctx)
        elif module is not None:
            r = run.prog.lookup_expr(module, e.value)
            if r and r[0] == 'class':
                types = {'cls:' + r[1]}
            elif r and r[0] == 'mod':
                types = {'mod:' + r[1]}
        vals = []
        for t in types:
            if isinstance(t, str) and (t.startswith('cls:') or t.startswith('inst:')):
                q = t.split(':', 1)[1]
                for k in run.prog.mro(q):
                    cc = class_consts(run, k)
                    if e.attr in cc:
                        vals.append(cc[e.attr])
                        break
            elif isinstance(t, str) and t.startswith('mod:'):
                mc = module_consts(run, t[4:])
                if e.attr in mc:
                    vals.append(mc[e.attr])
        if len(vals) == 1:
            return vals[0]
        if vals and all(v == vals[0] for v in vals):
            return vals[0]
        return NOCONST
    if isinstance(e, ast.BinOp) and type(e.op) in _BIN:
        l = _fold(run, e.left, ctx, env, module)
        r = _fold(run, e.right, ctx, env, module)
        if l is NOCONST or r is NOCONST:
            return NOCONST
        try:
            return _BIN[type(e.op)](l, r)
        except Exception:
            return NOCONST
    if isinstance(e, ast.UnaryOp):
        v = _fold(run, e.operand, ctx, env, module)
        if v is NOCONST:
            return NOCONST
        if isinstance(e.op, ast.USub):
            return -v
        if isinstance(e.op, ast.Not):
            return not v
        if isinstance(e.op, ast.Invert):
            return ~v
        return NOCONST
    if isinstance(e, (ast.Tuple, ast.List, ast.Set)):
        vs = [_fold(run, x, ctx, env, module) for x in e.elts]
        if NOCONST in vs:
            return NOCONST
        if isinstance(e, ast.Tuple):
            return tuple(vs)
        if isinstance(e, ast.List):
            return list(vs)
        return set(vs)
    if isinstance(e, ast.IfExp):
        t = _fold(run, e.test, ctx, env, module)
        if t is NOCONST:
            from .program import py_const
            pc = py_const(e.test, module) if module is not None else None
            if pc is None:
                return NOCONST
            t = pc
        return _fold(run, e.body if t else e.orelse, ctx, env, module)
    if isinstance(e, ast.Compare) and len(e.ops) == 1:
        l = _fold(run, e.left, ctx, env, module)
        r = _fold(run, e.comparators[0], ctx, env, module)
        if l is NOCONST or r is NOCONST:
            return NOCONST
        try:
            op = e.ops[0]
            return {ast.Eq: operator.eq, ast.NotEq: operator.ne, ast.Lt: operator.lt, ast.LtE: operator.le,
                    ast.Gt: operator.gt, ast.GtE: operator.ge, ast.In: lambda a, b: a in b,
                    ast.NotIn: lambda a, b: a not in b, ast.Is: operator.is_, ast.IsNot: operator.is_not}[type(op)](l, r)
        except Exception:
            return NOCONST
    if isinstance(e, (ast.ListComp, ast.SetComp, ast.GeneratorExp, ast.DictComp)):
        return _fold_comp(run, e, ctx, env, module)
    if isinstance(e, ast.Dict):
        out = {}
        for k, v in zip(e.keys, e.values):
            if k is None:
                return NOCONST
            kk = _fold(run, k, ctx, env, module)
            vv = _fold(run, v, ctx, env, module)
            if kk is NOCONST or vv is NOCONST:
                return NOCONST
            out[kk] = vv
        return out
    if isinstance(e, ast.Call) and isinstance(e.func, ast.Attribute) and isinstance(e.func.value, ast.Constant) \
            and e.func.attr == 'join' and len(e.args) == 1:
        v = _fold(run, e.args[0], ctx, env, module)
        if v is NOCONST:
            return NOCONST
        try:
            return e.func.value.value.join(v)
        except Exception:
            return NOCONST
    if isinstance(e, ast.Call) and isinstance(e.func, ast.Name) and e.func.id == 'getattr' and len(e.args) == 2 and not e.keywords:
        nm = _fold(run, e.args[1], ctx, env, module)
        if isinstance(nm, str) and nm.isidentifier():
            return _fold(run, ast.copy_location(ast.Attribute(value=e.args[0], attr=nm, ctx=ast.Load()), e), ctx, env, module)
        return NOCONST
    if isinstance(e, ast.Call) and isinstance(e.func, ast.Attribute) and e.func.attr in ('format', 'upper', 'lower', 'strip') \
            and not e.keywords:
        base = _fold(run, e.func.value, ctx, env, module)
        if isinstance(base, (str, bytes)):
            vs = [_fold(run, a, ctx, env, module) for a in e.args]
            if NOCONST not in vs:
                try:
                    return getattr(base, e.func.attr)(*vs)
                except Exception:
                    return NOCONST
    if isinstance(e, ast.JoinedStr):
        out = ''
        for part in e.values:
            if isinstance(part, ast.Constant):
                out += str(part.value)
            elif isinstance(part, ast.FormattedValue) and part.conversion == -1 and part.format_spec is None:
                v = _fold(run, part.value, ctx, env, module)
                if v is NOCONST:
                    return NOCONST
                out += format(v)
            else:
                return NOCONST
        return out
    if isinstance(e, ast.Call) and not e.keywords:
        r = _fold_pkg_call(run, e, ctx, env, module)
        if r is not NOCONST:
            return r
    if isinstance(e, ast.Call) and isinstance(e.func, ast.Name):
        if e.func.id in ('len', 'min', 'max', 'sum', 'sorted', 'abs', 'int', 'bool', 'ord', 'chr', 'enumerate', 'zip', 'dict') \
                and not e.keywords and e.func.id not in env:
            vs = [_fold(run, x, ctx, env, module) for x in e.args]
            if NOCONST in vs:
                return NOCONST
            try:
                r = {'len': len, 'min': min, 'max': max, 'sum': sum, 'sorted': sorted, 'abs': abs, 'int': int, 'bool': bool,
                     'ord': ord, 'chr': chr, 'enumerate': lambda *a: list(enumerate(*a)), 'zip': lambda *a: list(zip(*a)),
                     'dict': dict}[e.func.id](*vs)
                return r
            except Exception:
                return NOCONST
        if e.func.id == 'range':
            vs = []
            for x in e.args:
                if isinstance(x, ast.Starred):          # range(*pair)
                    sv = _fold(run, x.value, ctx, env, module)
                    if sv is NOCONST or not isinstance(sv, (tuple, list)):
                        return NOCONST
                    vs.extend(sv)
                else:
                    vs.append(_fold(run, x, ctx, env, module))
            if NOCONST in vs:
                return NOCONST
            try:
                return range(*vs)
            except Exception:
                return NOCONST
        if e.func.id in ('set', 'frozenset', 'tuple', 'list', 'bytes') and len(e.args) <= 1:
            if not e.args:
                return {'set': set, 'frozenset': frozenset, 'tuple': tuple, 'list': list, 'bytes': bytes}[e.func.id]()
            v = _fold(run, e.args[0], ctx, env, module)
            if v is NOCONST:
                return NOCONST
            try:
                return {'set': set, 'frozenset': frozenset, 'tuple': tuple, 'list': list, 'bytes': bytes}[e.func.id](v)
            except Exception:
                return NOCONST
    return NOCONST


_STEPS = [0]


def _fold_comp(run, e, ctx, env, module):
    """Comprehensions over constant iterables (bounded)."""
    results = []

    def rec(gi, env2):
        if gi == len(e.generators):
            _STEPS[0] += 1
            if _STEPS[0] > 400000:
                raise OverflowError
            if isinstance(e, ast.DictComp):
                k = _fold(run, e.key, ctx, env2, module)
                v = _fold(run, e.value, ctx, env2, module)
                if k is NOCONST or v is NOCONST:
                    raise ValueError
                results.append((k, v))
            else:
                v = _fold(run, e.elt, ctx, env2, module)
                if v is NOCONST:
                    raise ValueError
                results.append(v)
            return
        gen = e.generators[gi]
        it = _fold(run, gen.iter, ctx, env2, module)
        if it is NOCONST:
            raise ValueError
        for item in it:
            env3 = dict(env2)
            if not _bind(gen.target, item, env3):
                raise ValueError
            ok = True
            for cond in gen.ifs:
                c = _fold(run, cond, ctx, env3, module)
                if c is NOCONST:
                    raise ValueError
                if not c:
                    ok = False
                    break
            if ok:
                rec(gi + 1, env3)
    try:
        _STEPS[0] = 0 if len(env) == 0 else _STEPS[0]
        rec(0, dict(env))
    except (ValueError, OverflowError, TypeError):
        return NOCONST
    if isinstance(e, ast.ListComp):
        return results
    if isinstance(e, ast.SetComp):
        return set(results)
    if isinstance(e, ast.DictComp):
        return dict(results)
    return results        # a generator expression consumed by its caller (bytes(...), set(...), join)


def _bind(target, value, env):
    if isinstance(target, ast.Name):
        env[target.id] = value
        return True
    if isinstance(target, (ast.Tuple, ast.List)):
        try:
            vals = list(value)
        except TypeError:
            return False
        if len(vals) != len(target.elts):
            return False
        return all(_bind(t, v, env) for t, v in zip(target.elts, vals))
    return False


def _fold_pkg_call(run, e, ctx, env, module):
    """Call of a small pure function of the package with constant arguments: its body is interpreted (assignments,
    augmented assignments, set/list/dict updates on locals, for / if over constants, return)."""
    f = e.func
    fi = None
    if isinstance(f, ast.Name) and module is not None and f.id not in env:
        r = run.prog.lookup(module, f.id)
        if r and r[0] == 'func':
            fi = run.prog.funcs.get(r[1])
    if fi is None or fi.is_generator:
        return NOCONST
    args = [_fold(run, a, ctx, env, module) for a in e.args]
    if NOCONST in args:
        return NOCONST
    params = fi.params
    if len(args) > len(params) or fi.node.args.vararg or fi.node.args.kwarg:
        return NOCONST
    loc = dict(zip(params, args))
    defaults = fi.node.args.defaults
    for p, d in zip(params[len(params) - len(defaults):], defaults):
        if p not in loc:
            v = _fold(run, d, None, {}, fi.module)
            if v is NOCONST:
                return NOCONST
            loc[p] = v
    if any(p not in loc for p in params):
        return NOCONST
    try:
        r = _interp(run, fi.node.body, loc, fi.module, 0)
    except (ValueError, OverflowError, TypeError):
        return NOCONST
    if r is _FALL:
        return None
    return r[1]


_FALL = object()


def _interp(run, stmts, loc, module, depth):
    if depth > 6:
        raise ValueError
    for s in stmts:
        _STEPS[0] += 1
        if _STEPS[0] > 400000:
            raise OverflowError
        if isinstance(s, ast.Expr) and isinstance(s.value, ast.Constant):
            continue
        if isinstance(s, ast.Pass):
            continue
        if isinstance(s, ast.Return):
            v = _fold(run, s.value, None, loc, module) if s.value is not None else None
            if v is NOCONST:
                raise ValueError
            return ('ret', v)
        if isinstance(s, ast.Assign) and len(s.targets) == 1:
            v = _fold(run, s.value, None, loc, module)
            if v is NOCONST:
                raise ValueError
            t = s.targets[0]
            if isinstance(t, ast.Subscript) and isinstance(t.value, ast.Name) and t.value.id in loc:
                k = _fold(run, t.slice, None, loc, module)
                if k is NOCONST:
                    raise ValueError
                loc[t.value.id][k] = v
            elif not _bind(t, v, loc):
                raise ValueError
            continue
        if isinstance(s, ast.AugAssign) and isinstance(s.target, ast.Name) and s.target.id in loc and type(s.op) in _BIN:
            v = _fold(run, s.value, None, loc, module)
            if v is NOCONST:
                raise ValueError
            loc[s.target.id] = _BIN[type(s.op)](loc[s.target.id], v)
            continue
        if isinstance(s, ast.Expr) and isinstance(s.value, ast.Call) and isinstance(s.value.func, ast.Attribute) \
                and isinstance(s.value.func.value, ast.Name) and s.value.func.value.id in loc \
                and s.value.func.attr in ('add', 'update', 'append', 'extend', 'discard', 'remove', 'difference_update', 'setdefault'):
            vs = [_fold(run, a, None, loc, module) for a in s.value.args]
            if NOCONST in vs or s.value.keywords:
                raise ValueError
            getattr(loc[s.value.func.value.id], s.value.func.attr)(*vs)
            continue
        if isinstance(s, ast.If):
            t = _fold(run, s.test, None, loc, module)
            if t is NOCONST:
                from .program import py_const
                t = py_const(s.test, module)
                if t is None:
                    raise ValueError
            r = _interp(run, s.body if t else s.orelse, loc, module, depth + 1)
            if r is not _FALL:
                return r
            continue
        if isinstance(s, ast.For) and not s.orelse:
            it = _fold(run, s.iter, None, loc, module)
            if it is NOCONST:
                raise ValueError
            for item in it:
                if not _bind(s.target, item, loc):
                    raise ValueError
                r = _interp(run, s.body, loc, module, depth + 1)
                if r is not _FALL:
                    if r[0] == 'ret':
                        return r
                    if r[0] == 'break':
                        break
                    # continue
            continue
        if isinstance(s, ast.Continue):
            return ('continue', None)
        if isinstance(s, ast.Break):
            return ('break', None)
        raise ValueError
    return _FALL
