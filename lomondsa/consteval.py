"""Constant folding of pure expressions over literals, class and module constants."""
import ast
import operator

from .program import U

_BIN = {ast.Add: operator.add, ast.Sub: operator.sub, ast.Mult: operator.mul, ast.LShift: operator.lshift,
        ast.RShift: operator.rshift, ast.BitOr: operator.or_, ast.BitAnd: operator.and_,
        ast.Pow: operator.pow, ast.FloorDiv: operator.floordiv, ast.Mod: operator.mod}

NOCONST = object()


def class_consts(run, qual):
    """Interpret a class body: NAME = <const>, NAME.update(range(..)) -> dict name -> value."""
    c = run.prog.cls(qual)
    env = {}
    for s in c.body_stmts:
        if isinstance(s, ast.Assign) and len(s.targets) == 1 and isinstance(s.targets[0], ast.Name):
            v = _fold(run, s.value, None, env, c.module)
            if v is not NOCONST:
                env[s.targets[0].id] = v
        elif isinstance(s, ast.Expr) and isinstance(s.value, ast.Call):
            call = s.value
            f = call.func
            if isinstance(f, ast.Attribute) and isinstance(f.value, ast.Name) and f.value.id in env \
                    and isinstance(env[f.value.id], set):
                args = [_fold(run, a, None, env, c.module) for a in call.args]
                if NOCONST in args:
                    env.pop(f.value.id)
                    continue
                if f.attr == 'update':
                    for a in args:
                        env[f.value.id] |= set(a)
                elif f.attr == 'add':
                    env[f.value.id].add(args[0])
                elif f.attr in ('discard', 'remove'):
                    env[f.value.id].discard(args[0])
                elif f.attr == 'difference_update':
                    for a in args:
                        env[f.value.id] -= set(a)
                else:
                    env.pop(f.value.id)
    return env


def module_consts(run, modname):
    m = run.prog.modules[modname]
    env = {}
    for s in m.live:
        if isinstance(s, ast.Assign) and len(s.targets) == 1 and isinstance(s.targets[0], ast.Name):
            v = _fold(run, s.value, None, env, m)
            if v is not NOCONST:
                env[s.targets[0].id] = v
            else:
                env.pop(s.targets[0].id, None)
    return env


def fold(run, e, ctx, env=None):
    module = ctx.func.module if ctx is not None else None
    v = _fold(run, e, ctx, env or {}, module)
    return None if v is NOCONST else v


def _fold(run, e, ctx, env, module):
    if isinstance(e, ast.Constant):
        return e.value
    if isinstance(e, ast.Name):
        if e.id in env:
            return env[e.id]
        if module is not None:
            r = run.prog.lookup(module, e.id)
            if r and r[0] == 'global':
                mc = module_consts(run, r[1])
                if r[2] in mc:
                    return mc[r[2]]
        return NOCONST
    if isinstance(e, ast.Attribute):
        # Class.CONST or module.CONST or self.CONST
        types = set()
        if ctx is not None:
            types = run.types.expr(e.value, ctx)
        elif module is not None:
            r = run.prog.lookup_expr(module, e.value)
            if r and r[0] == 'class':
                types = {'cls:' + r[1]}
            elif r and r[0] == 'mod':
                types = {'mod:' + r[1]}
        vals = []
        for t in types:
            if isinstance(t, str) and (t.startswith('cls:') or t.startswith('inst:')):
                q = t.split(':', 1)[1]
                for k in run.prog.mro(q):
                    cc = class_consts(run, k)
                    if e.attr in cc:
                        vals.append(cc[e.attr])
                        break
            elif isinstance(t, str) and t.startswith('mod:'):
                mc = module_consts(run, t[4:])
                if e.attr in mc:
                    vals.append(mc[e.attr])
        if len(vals) == 1:
            return vals[0]
        if vals and all(v == vals[0] for v in vals):
            return vals[0]
        return NOCONST
    if isinstance(e, ast.BinOp) and type(e.op) in _BIN:
        l = _fold(run, e.left, ctx, env, module)
        r = _fold(run, e.right, ctx, env, module)
        if l is NOCONST or r is NOCONST:
            return NOCONST
        try:
            return _BIN[type(e.op)](l, r)
        except Exception:
            return NOCONST
    if isinstance(e, ast.UnaryOp):
        v = _fold(run, e.operand, ctx, env, module)
        if v is NOCONST:
            return NOCONST
        if isinstance(e.op, ast.USub):
            return -v
        if isinstance(e.op, ast.Not):
            return not v
        if isinstance(e.op, ast.Invert):
            return ~v
        return NOCONST
    if isinstance(e, (ast.Tuple, ast.List, ast.Set)):
        vs = [_fold(run, x, ctx, env, module) for x in e.elts]
        if NOCONST in vs:
            return NOCONST
        if isinstance(e, ast.Tuple):
            return tuple(vs)
        if isinstance(e, ast.List):
            return list(vs)
        return set(vs)
    if isinstance(e, ast.Call) and isinstance(e.func, ast.Name):
        if e.func.id == 'range':
            vs = [_fold(run, x, ctx, env, module) for x in e.args]
            if NOCONST in vs:
                return NOCONST
            return range(*vs)
        if e.func.id in ('set', 'frozenset', 'tuple', 'list', 'bytes') and len(e.args) <= 1:
            if not e.args:
                return {'set': set, 'frozenset': frozenset, 'tuple': tuple, 'list': list, 'bytes': bytes}[e.func.id]()
            v = _fold(run, e.args[0], ctx, env, module)
            if v is NOCONST:
                return NOCONST
            try:
                return {'set': set, 'frozenset': frozenset, 'tuple': tuple, 'list': list, 'bytes': bytes}[e.func.id](v)
            except Exception:
                return NOCONST
    return NOCONST
