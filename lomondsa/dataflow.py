"""Reaching definitions / def-use provenance over a CFG, and small helpers."""
import ast

from .program import U, walk_no_nested


def _target_names(t, out):
    if isinstance(t, ast.Name):
        out.append(t.id)
    elif isinstance(t, (ast.Tuple, ast.List)):
        for e in t.elts:
            _target_names(e, out)
    elif isinstance(t, ast.Starred):
        _target_names(t.value, out)


def defs_of_node(n):
    """Local names (re)bound by CFG node n."""
    out = []
    a = n.ast
    if n.kind == 'stmt':
        if isinstance(a, ast.Assign):
            for t in a.targets:
                _target_names(t, out)
        elif isinstance(a, (ast.AugAssign, ast.AnnAssign)):
            _target_names(a.target, out)
        for x in walk_no_nested(a):
            if isinstance(x, ast.NamedExpr):
                _target_names(x.target, out)
    elif n.kind == 'for':
        _target_names(a.target, out)
    elif n.kind == 'with':
        for it in a.items:
            if it.optional_vars is not None:
                _target_names(it.optional_vars, out)
    elif n.kind == 'handler':
        if a.name:
            out.append(a.name)
    elif n.kind == 'def':
        out.append(a.name)
    return out


class ReachingDefs(object):
    def __init__(self, g):
        self.g = g
        fn = g.ctx.func.node
        params = [x.arg for x in fn.args.posonlyargs + fn.args.args + fn.args.kwonlyargs]
        if fn.args.vararg:
            params.append(fn.args.vararg.arg)
        if fn.args.kwarg:
            params.append(fn.args.kwarg.arg)
        self.params = params
        nodes = g.live_nodes()
        gen = {}
        for n in nodes:
            gen[n] = set(defs_of_node(n))
        gen[g.entry] = set(params)
        # IN/OUT: dict name -> frozenset of def nodes
        self.inn = {n: {} for n in nodes}
        out = {n: {} for n in nodes}
        for n in nodes:
            out[n] = {name: {n} for name in gen[n]}
        work = list(nodes)
        live = set(nodes)
        while work:
            n = work.pop()
            i = {}
            for (p, _) in n.pred:
                if p not in live:
                    continue
                for name, ds in out[p].items():
                    i.setdefault(name, set()).update(ds)
            self.inn[n] = i
            o = {name: set(ds) for name, ds in i.items()}
            for name in gen[n]:
                o[name] = {n}
            if o != out[n]:
                out[n] = o
                for (s, _) in n.succ:
                    if s in live:
                        work.append(s)
        self.out = out

    def defs_at(self, n, name):
        """Definitions of ``name`` that may reach the *evaluation* of node n."""
        return set(self.inn.get(n, {}).get(name, set()))

    def value_of_def(self, d, name):
        """RHS expression if def node d is a plain ``name = <expr>``; else None."""
        a = d.ast
        if d.kind == 'stmt' and isinstance(a, ast.Assign) and len(a.targets) >= 1:
            for t in a.targets:
                if isinstance(t, ast.Name) and t.id == name:
                    return a.value
        return None

    def tuple_def(self, d, name):
        """If def node d is ``a, b = <expr>`` binding ``name``: (expr, index); else None."""
        a = d.ast
        if d.kind == 'stmt' and isinstance(a, ast.Assign):
            for t in a.targets:
                if isinstance(t, (ast.Tuple, ast.List)):
                    for i, el in enumerate(t.elts):
                        if isinstance(el, ast.Name) and el.id == name:
                            return a.value, i
        return None

    def tuple_origin(self, n, e):
        """Follow local copies of e back to an unpacking assignment ``a, b = <expr>``: (expr, index, def node) or None."""
        e, n = self.origin(n, e)
        if isinstance(e, ast.Name):
            ds = self.defs_at(n, e.id)
            if len(ds) == 1:
                d = next(iter(ds))
                td = self.tuple_def(d, e.id)
                if td is not None:
                    return td[0], td[1], d
        return None

    def origin(self, n, e, depth=8):
        """Follow single-definition local copies: returns (expr, node) of the defining expression."""
        while depth > 0 and isinstance(e, ast.Name):
            ds = self.defs_at(n, e.id)
            if len(ds) != 1:
                break
            d = next(iter(ds))
            v = self.value_of_def(d, e.id)
            if v is None:
                break
            n, e = d, v
            depth -= 1
        return e, n

    def origins(self, n, e, depth=8):
        """All defining expressions (through copies), as a list of (expr, node); parameters map to
        (Name, entry)."""
        out = []
        seen = set()

        def rec(n, e, depth):
            if isinstance(e, ast.Name) and depth > 0:
                ds = self.defs_at(n, e.id)
                if ds:
                    for d in ds:
                        if (d.id, e.id) in seen:
                            continue
                        seen.add((d.id, e.id))
                        v = self.value_of_def(d, e.id)
                        if v is None:
                            out.append((e, d))
                        else:
                            rec(d, v, depth - 1)
                    return
            out.append((e, n))
        rec(n, e, depth)
        return out


def names_in(e):
    return {x.id for x in walk_no_nested(e) if isinstance(x, ast.Name)}


def attr_chain(e):
    """``self.state.closing`` -> ['self','state','closing'];  None if not a pure chain."""
    parts = []
    while isinstance(e, ast.Attribute):
        parts.append(e.attr)
        e = e.value
    if isinstance(e, ast.Name):
        parts.append(e.id)
        return list(reversed(parts))
    return None
