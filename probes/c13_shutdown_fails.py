"""Probe (not a check): C13 - the socket must be closed when iteration is abandoned, also when the peer has already
reset the connection, in which case socket.shutdown() fails with ENOTCONN.  Before the fix _close_socket() skipped
close() whenever shutdown() raised (both sat in one try block whose socket.error handler is `pass`), so the library
never closed the descriptor itself (it was left to the garbage collector)."""
import errno
import socket
import sys
from base64 import b64encode
from hashlib import sha1

from lomond.websocket import WebSocket
from lomond.session import WebsocketSession


class FakeSock(object):
    def __init__(self, chunks):
        self.chunks = list(chunks)
        self.closed = False

    def sendall(self, d):
        pass

    def recv_into(self, buf, n):
        d = self.chunks.pop(0) if self.chunks else b''
        buf[:len(d)] = d
        return len(d)

    def shutdown(self, how):
        # what Linux answers once the peer has reset the connection
        raise socket.error(errno.ENOTCONN, 'Transport endpoint is not connected')

    def close(self):
        self.closed = True

    def settimeout(self, t):
        pass

    def fileno(self):
        return 0


class FakeSelector(object):
    def __init__(self, sock):
        self.closed = False

    def wait(self, max_bytes, timeout):
        return True, max_bytes

    def close(self):
        self.closed = True


def run(stop_at):
    ws = WebSocket('ws://example.org/', proxies={})
    holder = {}

    class Sess(WebsocketSession):
        _selector_cls = FakeSelector

        def _connect(self):
            accept = b64encode(sha1(self.websocket.key + b'258EAFA5-E914-47DA-95CA-C5AB0DC85B11').digest())
            resp = b'HTTP/1.1 101 X\r\nUpgrade: websocket\r\nSec-WebSocket-Accept: ' + accept + b'\r\n\r\n'
            holder['sock'] = FakeSock([resp, b'\x81\x01a'])
            return holder['sock'], None
    gen = ws.connect(session_class=Sess, poll=0)
    for ev in gen:
        if ev.name == stop_at:
            gen.close()
            return holder['sock'].closed
    return holder['sock'].closed


bad = 0
for stop_at in ('connected', 'ready', 'text', 'disconnected'):
    r = run(stop_at)
    print('%-13s socket.close() called: %s' % (stop_at, r))
    bad += (r is not True)
sys.exit(1 if bad else 0)
