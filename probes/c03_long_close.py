"""Probe (not a check): close() with a reason > 123 bytes must not write an oversize control frame (C03)."""
import sys
from lomond.websocket import WebSocket
class FakeSession(object):
    def __init__(self): self.sent = []
    def send(self, opcode, data): self.sent.append((opcode, bytes(data)))
    session_time = 0.0
ws = WebSocket('ws://example.org/')
ws.state.session = s = FakeSession()
try:
    ws.close(1000, 'x' * 200)
except ValueError as e:
    print('ValueError:', e, 'sent=%d closing=%s' % (len(s.sent), ws.is_closing))
    sys.exit(1 if s.sent or ws.is_closing else 0)
print('sent payload of', len(s.sent[0][1]), 'bytes'); sys.exit(1)
