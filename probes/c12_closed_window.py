"""Probe (triage only, never run by a check): the Closed branch of WebSocket._on_close stores `closing = False` and then
`closed = True`.  Between the two stores neither flag is set, so a send on another thread passes both tests of
WebsocketSession.write() and its frame is written after the closing handshake has completed.

Forced schedule: the receiving thread is parked (sys.settrace) right after `self.state.closing = False`; the sender runs
send_text() to completion; the receiver resumes.  Exit 1 if a data frame follows the Close on the wire."""
import sys, threading
sys.path.insert(0, sys.argv[1] if len(sys.argv) > 1 else '/repo')
from lomond.websocket import WebSocket
from lomond.session import WebsocketSession
from lomond.message import Close


class Sock(object):
    def __init__(self):
        self.sent = []

    def sendall(self, data):
        self.sent.append(bytes(data))

    def fileno(self):
        return 0

    def shutdown(self, how):
        pass

    def close(self):
        pass


ws = WebSocket('ws://example.org/')
session = WebsocketSession(ws)
ws.state.session = session
sock = session._sock = Sock()
ws.close(1000, 'bye')                      # client-initiated close: Close frame written, closing = True
assert ws.is_closing and len(sock.sent) == 1

parked = threading.Event()
resume = threading.Event()


def tracer(frame, event, arg):
    if frame.f_code.co_name != '_on_close':
        return None

    def local(frame, event, arg):
        # parked when the line *after* `closing = False` is about to run
        if event == 'line' and ws.state.closing is False and ws.state.closed is False and not parked.is_set():
            parked.set()
            resume.wait(5)
        return local
    return local


def receiver():
    sys.settrace(tracer)
    try:
        for _ in ws._on_close(Close(1000, 'bye')):       # the server's reply
            pass
    finally:
        sys.settrace(None)


t = threading.Thread(target=receiver)
t.start()
if not parked.wait(2):
    t.join()
    print('ok: no point in _on_close at which neither flag is set (closed=%s closing=%s)' % (ws.state.closed, ws.state.closing))
    sys.exit(0)
err = None
try:
    ws.send_text('late')                                  # another thread (here: main) sends inside the window
except Exception as e:                                    # noqa
    err = e
resume.set()
t.join()
ops = [f[0] & 0x0f for f in sock.sent]
print('wire opcodes:', ops, 'send_text ->', repr(err))
if ops != [8]:
    print('FAIL: a frame was written after the closing handshake completed')
    sys.exit(1)
print('ok: the late send was refused')
