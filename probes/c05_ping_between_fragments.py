"""Probe (not a check): invalid UTF-8 in a text continuation after an interleaved
Ping must be reported when the offending byte arrives (C05 fail-fast)."""
import sys
from lomond.stream import WebsocketStream
from lomond import errors
s = WebsocketStream()
list(s.feed(b'HTTP/1.1 101 X\r\n\r\n'))
list(s.feed(b'\x01\x01a'))       # TEXT, FIN=0
list(s.feed(b'\x89\x00'))        # Ping in between
try:
    # continuation, FIN=1, declared 256 bytes, only the first (invalid) byte arrives
    list(s.feed(b'\x80\x7e\x01\x00\xff'))
    print('NOT REPORTED EARLY'); sys.exit(1)
except errors.CriticalProtocolError as e:
    print('reported early:', e); sys.exit(0)
