"""Probe (not a check): a 126-byte Ping must be a protocol error (C04)."""
import sys
from lomond.stream import WebsocketStream
from lomond import errors
s = WebsocketStream()
data = b'HTTP/1.1 101 X\r\n\r\n' + b'\x89\x7e\x00\x7e' + b'a' * 126
try:
    out = list(s.feed(data))
    print('DELIVERED', out[-1]); sys.exit(1)
except errors.ProtocolError as e:
    print('ProtocolError:', e); sys.exit(0)
