"""Probe (not a check): closing the event generator at any event must close the socket (C13)."""
import sys
from lomond.websocket import WebSocket
from lomond.session import WebsocketSession
from base64 import b64encode
from hashlib import sha1

class FakeSock(object):
    def __init__(self, chunks): self.chunks = list(chunks); self.closed = False
    def sendall(self, d): pass
    def recv_into(self, buf, n):
        d = self.chunks.pop(0) if self.chunks else b''
        buf[:len(d)] = d; return len(d)
    def shutdown(self, how): pass
    def close(self): self.closed = True
    def settimeout(self, t): pass
    def fileno(self): return 0

class FakeSelector(object):
    def __init__(self, sock): self.closed = False
    def wait(self, max_bytes, timeout): return True, max_bytes
    def close(self): self.closed = True

def run(stop_at, frames, nth=1):
    ws = WebSocket('ws://example.org/', proxies={})
    holder = {}
    class Sess(WebsocketSession):
        _selector_cls = FakeSelector
        def _connect(self):
            accept = b64encode(sha1(self.websocket.key + b'258EAFA5-E914-47DA-95CA-C5AB0DC85B11').digest())
            resp = b'HTTP/1.1 101 X\r\nUpgrade: websocket\r\nSec-WebSocket-Accept: ' + accept + b'\r\n\r\n'
            holder['sock'] = FakeSock([resp] + frames)
            return holder['sock'], None
    gen = ws.connect(session_class=Sess, poll=0)
    for ev in gen:
        if ev.name == stop_at:
            nth -= 1
            if nth:
                continue
            gen.close()
            return holder['sock'].closed
    return None

bad = 0
for stop_at, frames, nth in [('connected', [], 1), ('ready', [], 1), ('poll', [], 1), ('poll', [], 2), ('text', [b'\x81\x01a'], 1),
                        ('ping', [b'\x89\x00'], 1), ('closing', [b'\x88\x02\x03\xe8'], 1),
                        ('protocol_error', [b'\x83\x00'], 1)]:
    r = run(stop_at, frames, nth)
    print('%-15s #%d socket closed: %s' % (stop_at, nth, r))
    bad += (r is not True)
sys.exit(1 if bad else 0)
