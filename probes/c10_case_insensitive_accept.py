"""Probe (not a check): a Sec-WebSocket-Accept that differs from the digest only in letter case must be Rejected (C10).
Exits 1 on the pinned tree: the comparison lower-cases both sides (known finding)."""
import sys
from base64 import b64encode
from hashlib import sha1
from lomond.websocket import WebSocket
from lomond.response import Response
from lomond import errors
ws = WebSocket('ws://example.org/')
digest = b64encode(sha1(ws.key + b'258EAFA5-E914-47DA-95CA-C5AB0DC85B11').digest()).decode()
wrong = digest.swapcase()
assert wrong != digest
resp = Response(('HTTP/1.1 101 X\r\nUpgrade: websocket\r\nSec-WebSocket-Accept: %s\r\n\r\n' % wrong).encode())
try:
    ws.on_response(resp)
    print('ACCEPTED a wrong digest:', wrong, 'expected', digest); sys.exit(1)
except errors.HandshakeError as e:
    print('rejected:', e); sys.exit(0)
