"""Probe (not a check): no data frame may be written after the Close frame (C12).  Forces the schedule: thread A's
close() has written the Close frame and is on the return path of session.send(); thread B calls send_text().
Exits 1 on the pinned tree (known finding: state.closing is set outside the critical section)."""
import sys, threading
from lomond.websocket import WebSocket
from lomond.session import WebsocketSession
from lomond.opcode import Opcode
from lomond import errors

class Sock(object):
    def __init__(self): self.frames = []
    def sendall(self, data): self.frames.append(bytes(data)[0] & 0x0f)
wrote_close = threading.Event(); b_done = threading.Event()
class Sess(WebsocketSession):
    def send(self, opcode, data):
        WebsocketSession.send(self, opcode, data)
        if opcode == Opcode.CLOSE:       # schedule point on the return path, after write() released the lock
            wrote_close.set(); b_done.wait(5)
ws = WebSocket('ws://example.org/')
ws.state.session = sess = Sess(ws)
sess._sock = sock = Sock()
res = {}
def b():
    wrote_close.wait(5)
    try:
        ws.send_text('late'); res['b'] = 'written'
    except errors.WebSocketError as e:
        res['b'] = 'refused: %s' % type(e).__name__
    b_done.set()
ta = threading.Thread(target=ws.close); tb = threading.Thread(target=b)
ta.start(); tb.start(); ta.join(); tb.join()
print('wire opcodes:', sock.frames, '| late send', res['b'])
sys.exit(1 if sock.frames != [Opcode.CLOSE] else 0)
