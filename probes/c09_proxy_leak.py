"""Probe (not a check): a failed proxy negotiation must close the proxy socket (C09)."""
import sys
from lomond.websocket import WebSocket
from lomond.session import WebsocketSession

class FakeSock(object):
    def __init__(self, reply): self.reply = reply; self.closed = False; self.sent = []
    def sendall(self, d): self.sent.append(d)
    def recv(self, n): return self.reply
    def close(self): self.closed = True
    def settimeout(self, t): pass

bad = 0
for reply in (b'HTTP/1.1 407 Auth\r\n\r\n', b'', b'garbage' * 4000):
    ws = WebSocket('ws://example.org/', proxies={'http': 'http://proxy:3128'})
    sess = WebsocketSession(ws)
    sock = FakeSock(reply)
    sess._connect_sock = lambda *a, **k: sock
    try:
        sess._connect_proxy('http://proxy:3128')
        print('no failure?'); bad += 1
    except Exception as e:
        print(type(e).__name__, 'closed=%s' % sock.closed)
        bad += not sock.closed
sys.exit(1 if bad else 0)
