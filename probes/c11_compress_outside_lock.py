"""Probe (not a check): with context takeover, two threads sending compressed messages must produce a wire the peer
can inflate in wire order (C11).  Forces the schedule: T1 compresses, T2 compresses and writes, T1 writes.
Exits 1 on the pinned tree (known finding: compress() runs outside the write lock)."""
import sys, threading, zlib
from lomond.websocket import WebSocket
from lomond.compression import Deflate

class Sess(object):
    def __init__(self):
        self.wire = []; self.first_in = threading.Event(); self.second_done = threading.Event(); self.n = 0
        self.lock = threading.Lock()
    def send_compressed(self, opcode, data):
        with self.lock:
            self.n += 1; me = self.n
        if me == 1:                     # T1 has already compressed; let T2 overtake it before T1 reaches the wire
            self.first_in.set(); self.second_done.wait(5)
        self.wire.append(bytes(data))
        if me == 2:
            self.second_done.set()
    def send(self, opcode, data): self.wire.append(('plain', bytes(data)))
ws = WebSocket('ws://example.org/')
ws.state.compression = Deflate.from_options({})      # context takeover both ways
ws.state.session = s = Sess()
A = 'the quick brown fox jumps over the lazy dog ' * 4
B = 'the quick brown fox jumps over the lazy dog again ' * 4
t1 = threading.Thread(target=lambda: ws.send_text(A)); t1.start()
s.first_in.wait(5)
t2 = threading.Thread(target=lambda: ws.send_text(B)); t2.start()
t1.join(); t2.join()
peer = zlib.decompressobj(-15)
try:
    got = [peer.decompress(m + b'\x00\x00\xff\xff').decode() for m in s.wire]
except Exception as e:
    print('peer cannot inflate in wire order:', e); sys.exit(1)
ok = sorted(got) == sorted([A, B])
print('decoded ok' if ok else 'peer decoded WRONG content: %r' % [g[:30] for g in got]); sys.exit(0 if ok else 1)
