#!/venv/bin/python
"""Self-test of lomondsa/inline.py on synthetic modules (never on /repo code): the module is executed before and after
the inlining pass and the observable results (return values, raised exception types/texts, recorded side effects) of a
set of calls are compared.  Also asserts that each case really was inlined.  usage: tools/test_inline.py"""
import ast, os, sys, types
sys.path.insert(0, os.path.dirname(os.path.dirname(os.path.abspath(__file__))))
from lomondsa import inline as inl

CASES = []


def case(src, calls, expect_inlined=True):
    CASES.append((src, calls, expect_inlined))


case('''
LOG = []
class A(object):
    def __init__(self): self.ready = False; self.n = 0
    def _gate(self, a, b):
        """doc"""
        if self.ready:
            return self.work(a, b)
        return ()
    def work(self, a, b): LOG.append(('work', a, b)); return [a, b]
    def run(self, a, b):
        out = []
        for x in self._gate(a, b):
            out.append(x)
        return out
def t(ready, a, b):
    o = A(); o.ready = ready
    return o.run(a, b), list(LOG)
''', ['t(True, 1, 2)', 't(False, 1, 2)'])

case('''
class A(object):
    def _check(self, x):
        if x < 0:
            raise ValueError('neg %d' % x)
        if x > 10:
            raise KeyError(x)
    def _neg(self, x):
        v = -x
        return v * 2
    def f(self, x):
        self._check(x)
        return self._neg(x)
def t(x):
    return A().f(x)
''', ['t(1)', 't(-1)', 't(11)', 't(10)'])

case('''
class S(object):
    def __init__(self): self.out = []
    def _send_frame(self, opcode, data, **flags):
        frame = dict(opcode=opcode, payload=bytearray(data), **flags)
        self.out.append(frame)
    def send(self, opcode, data):
        self._send_frame(opcode, data)
    def sendc(self, opcode, data):
        frame = 'shadow'
        self._send_frame(opcode, data, rsv1=1)
        return frame
def t(op, d):
    s = S(); s.send(op, d); r = s.sendc(op, d); return s.out, r
''', ['t(1, b"ab")'])

case('''
import socket
class C(object):
    def __init__(self, plan): self.plan = plan; self.log = []
    def mk(self, res):
        if self.plan.get(res) == 'nosock': raise socket.error('x')
        return res
    def conn(self, s):
        if self.plan.get(s) == 'noconn': raise socket.error('y')
    def _try(self, res, flag):
        try:
            sock = self.mk(res)
        except socket.error as error:
            self.log.append(('mk', str(error)))
            return None
        if flag:
            sock = (sock, 'wrapped')
        try:
            self.conn(res)
        except socket.error as error:
            self.log.append(('conn', str(error)))
            return None
        return sock
    def run(self, items, flag):
        sock = None
        for res in items:
            sock = self._try(res, flag)
            if sock is not None:
                break
        return sock, self.log
def t(plan, items, flag):
    return C(plan).run(items, flag)
''', ['t({}, [1,2], False)', 't({1:"nosock"}, [1,2], True)', 't({1:"noconn", 2:"nosock"}, [1,2,3], False)', 't({1:"noconn"}, [1], False)'])

case('''
def outer(items):
    it = iter(items)
    def nxt():
        """next or raise"""
        try:
            return next(it)
        except ZeroDivisionError:
            raise RuntimeError('never')
    out = []
    try:
        first = nxt()
    except StopIteration:
        return 'empty'
    out.append(first)
    while True:
        try:
            v = nxt()
        except StopIteration:
            return out
        out.append(v * 2)
''', ['outer([])', 'outer([1])', 'outer([1,2,3])'])

case('''
class P(object):
    def __init__(self, comp): self.comp = comp; self.v = 'V'
    def read(self, n): return ('read', n)
    def read_utf8(self, n, v): return ('utf8', n, v)
    def parse(self, n):
        def read_text(length):
            if self.comp:
                return self.read(length)
            else:
                return self.read_utf8(length, self.v)
        got = yield read_text(n)
        yield ('got', got)
def t(comp, n):
    g = P(comp).parse(n)
    a = next(g); b = g.send('x'); return a, b
''', ['t(True, 3)', 't(False, 4)'])

case('''
class W(object):
    @classmethod
    def _fail(cls, logf, msg, error):
        logf('send error %s' % error)
        raise RuntimeError(msg.format(error))
    def write(self, data, log):
        try:
            if data == b'bad':
                raise OSError('boom')
            return len(data)
        except OSError as error:
            self._fail(log.append, 'socket fail; {}', error)
def t(d):
    log = []
    try:
        return W().write(d, log), log
    except RuntimeError as e:
        return 'RT', str(e), log
''', ['t(b"ok")', 't(b"bad")'])

case('''
def helper(a, b=2):
    a = a + 1
    if a > 5:
        return 'big'
    total = a * b
    return total
def use(x):
    total = 100
    r = helper(x)
    return r, total
def use2(x):
    if helper(x, b=3) == 'big':
        return 1
    return 0
''', ['use(1)', 'use(7)', 'use2(1)', 'use2(9)'])


# dispatch dict of bound methods (get + None test), generator helper consumed by for/yield, star-args tuple
case('''
LOG = []
class S(object):
    def __init__(self): self.ready = False
    def _h_ready(self, ev, ap): LOG.append('ready'); self.ready = True
    def _h_ping(self, ev, ap):
        if ap:
            LOG.append(('pong', ev))
    def on_event(self, ev, ap):
        handlers = {'ready': self._h_ready, 'ping': self._h_ping}
        handler = handlers.get(ev)
        if handler is not None:
            handler(ev, ap)
    def _unresp(self, t):
        yield 'unresponsive'
        raise RuntimeError('exceeded %s' % t)
    def _gate(self, a, b):
        if self.ready:
            evs = self.work(a, b)
        else:
            evs = ()
        return evs
    def work(self, a, b):
        yield ('w', a, b)
    def regular(self, t, late):
        yield 'poll'
        if late:
            for e in self._unresp(t):
                yield e
    def run(self, a, b):
        args = (a, b)
        out = []
        for e in self._gate(*args):
            out.append(e)
        return out
def t(ev, ap, late):
    s = S(); s.on_event(ev, ap); r = s.run(1, 2)
    try:
        evs = list(s.regular(5, late))
    except RuntimeError as e:
        evs = ['RT', str(e)]
    return r, evs, list(LOG)
''', ['t("ready", True, False)', 't("ping", True, True)', 't("ping", False, False)', 't("other", True, True)'])

# dict of constructors with try/except KeyError and a continuation to thread
case('''
class B(object):
    def __init__(self, p): self.p = p
    def __repr__(self): return 'B(%r)' % (self.p,)
class T(B):
    @classmethod
    def from_payload(cls, p):
        if p == b'bad': raise ValueError('bad')
        return cls(p.decode())
def build(op, payload):
    ctors = {1: B, 2: T.from_payload}
    try:
        ctor = ctors[op]
    except (KeyError, TypeError):
        return ('plain', op)
    return ctor(payload)
def t(op, p):
    return repr(build(op, p))
''', ['t(1, b"x")', 't(2, b"y")', 't(2, b"bad")', 't(3, b"")'])

# tuple-returning helper, flag tested afterwards (threaded), generator caller
case('''
class E(object):
    def __init__(self, r): self.r = r
    def __repr__(self): return 'E(%r)' % self.r
class R(object):
    def __init__(self, plan): self.plan = plan; self.closed = 0
    def conn(self):
        if self.plan == 'fail': raise OSError('nope')
        return 'sock', 'proxy'
    def req(self):
        if self.plan == 'reqfail': raise KeyError('req')
    def _open(self, url):
        try:
            sock, proxy = self.conn()
        except OSError as error:
            return None, None, E('%s' % error)
        try:
            self.req()
        except KeyError as error:
            self.closed += 1
            return None, None, E('request failed; %s' % error)
        return sock, proxy, None
    def run(self, url):
        yield 'connecting'
        sock, proxy, fail = self._open(url)
        if fail is not None:
            yield fail
            return
        yield ('connected', sock, proxy)
def t(plan):
    r = R(plan)
    return [repr(x) for x in r.run('u')], r.closed
''', ['t("ok")', 't("fail")', 't("reqfail")'])

# table-driven checks: loop over constant tuple of (lambda, message), getattr over names
case('''
class F(object):
    def __init__(self, **kw): self.__dict__.update(dict(op=1, fin=1, rsv1=0, rsv2=0, rsv3=0), **kw)
    _CHECKS = (
        (lambda f: f.op > 10, 'reserved'),
        (lambda f: f.op >= 8 and not f.fin, 'fragmented control'),
    )
    def validate(self):
        for cond, msg in self._CHECKS:
            if cond(self):
                raise ValueError(msg)
        for name in ('rsv1', 'rsv2', 'rsv3'):
            if getattr(self, name):
                raise KeyError(name)
        return 'ok'
def t(**kw):
    return F(**kw).validate()
''', ['t()', 't(op=11)', 't(op=9, fin=0)', 't(rsv2=1)', 't(op=12, rsv1=1)'])


# flag-valued returns
case('''
class C(object):
    def __init__(self): self.start = None; self.now = 0
    def check(self, poll):
        due = False
        if poll:
            if self.start is None or self.now - self.start >= poll:
                self.start = self.now
                due = True
        return due
    def timed(self, t, last):
        out = False
        if t:
            if self.now - last > t:
                out = True
            else:
                out = False
        return not out
def t(poll, now, start, tt, last):
    c = C(); c.now = now; c.start = start
    return c.check(poll), c.start, c.timed(tt, last)
''', ['t(0, 5, None, 0, 0)', 't(5, 5, None, 3, 1)', 't(5, 7, 5, 3, 6)', 't(5, 11, 5, 10, 0)'], expect_inlined=True)

# return inside a loop: single-exit form with for-else
case('''
class N(object):
    def _find(self, xs):
        for x in xs:
            if x > 1:
                return x
        return None
    def f(self, xs):
        v = self._find(xs)
        return v
def t(xs): return N().f(xs)
''', ['t([0,1,2,3])', 't([])'], expect_inlined=True)

# return from a nested loop, result discarded / assigned; try-finally and continue in the loop
case('''
LOG = []
class N(object):
    def _pump(self, src):
        while True:
            chunk = src.pop(0)
            for item in chunk:
                if item < 0:
                    continue
                return item
            LOG.append('empty')
    def _first(self, xs, bad):
        for x in xs:
            try:
                if x in bad:
                    continue
                if x > 2:
                    return x * 2
            finally:
                LOG.append(x)
        LOG.append('none')
    def f(self, src, xs, bad):
        del LOG[:]
        self._pump(src)
        a = self._pump(src)
        b = self._first(xs, bad)
        return a, b, list(LOG), src
def t(src, xs, bad): return N().f(src, xs, bad)
''', ['t([[], [-1], [-2, 5], [], [7, 8], [9]], [1, 3, 4], [3])', 't([[1], [2]], [0, 1], [])', 't([[1]], [5], [])'],
     expect_inlined=True)

# a repeated test on an attribute is not decided across a call / yield that can change the attribute
case('''
class N(object):
    def __init__(self): self.flag = False
    def _flip(self): self.flag = not self.flag
    def _tail(self, out):
        if self.flag:
            out.append('on')
        else:
            out.append('off')
    def f(self, start):
        self.flag = start
        out = []
        if self.flag:
            out.append('A')
            self._flip()
            self._tail(out)
        else:
            out.append('B')
            self._tail(out)
            self._flip()
            self._tail(out)
        return out
    def g(self, start):
        self.flag = start
        kind = 'x' if self.flag else 'y'
        yield kind
        self._tail2 = []
        self._tail(self._tail2)
        yield self._tail2
def t(start): return N().f(start)
def u(start):
    n = N()
    it = n.g(start)
    a = next(it)
    n._flip()
    return a, next(it)
''', ['t(True)', 't(False)', 'u(True)', 'u(False)'], expect_inlined=True)

# must NOT be inlined: the loop has its own break (for-else would change meaning)
case('''
class N(object):
    def _find(self, xs):
        for x in xs:
            if x > 5:
                break
            if x > 1:
                return x
        return None
    def f(self, xs):
        v = self._find(xs)
        return v
def t(xs): return N().f(xs)
''', ['t([0,1,2,3])', 't([0, 9, 2])', 't([])'], expect_inlined=False)


def run_module(tree, calls):
    mod = types.ModuleType('m')
    code = compile(ast.fix_missing_locations(tree), '<case>', 'exec')
    exec(code, mod.__dict__)
    res = []
    for c in calls:
        try:
            res.append(('ok', repr(eval(c, mod.__dict__))))
        except Exception as e:
            res.append(('exc', type(e).__name__, str(e)))
    return res


class FakeMod(object):
    def __init__(self, name, tree):
        self.name, self.tree = name, tree


def main():
    bad = 0
    saved = inl.KNOWN
    inl.KNOWN = frozenset()
    try:
        for i, (src, calls, expect) in enumerate(CASES):
            before = run_module(ast.parse(src), calls)
            tree = ast.parse(src)
            # anchors: every function whose name does not start with '_' and nested non-helpers are "known"
            known = set()
            for n in ast.walk(tree):
                if isinstance(n, ast.ClassDef):
                    for s in n.body:
                        if isinstance(s, ast.FunctionDef) and not s.name.startswith('_'):
                            known.add('m.%s.%s' % (n.name, s.name))
            for s in tree.body:
                if isinstance(s, ast.FunctionDef) and s.name not in ('helper',):
                    known.add('m.' + s.name)
            inl.KNOWN = frozenset(known)
            from lomondsa import normalise
            mods = {'m': FakeMod('m', tree)}
            log = []
            for _round in range(5):
                ch = normalise.simple_passes(mods, log)
                l2 = inl.Inliner(mods).run()
                log.extend(l2)
                if not ch and not l2:
                    break
            after = run_module(tree, calls)
            ok = before == after and (bool(log) == expect)
            print('case %d: %s  inlined=%d %s' % (i, 'ok' if ok else 'MISMATCH', len(log), '' if ok else (before, after, log)))
            if not ok:
                print(ast.unparse(tree))
                bad += 1
    finally:
        inl.KNOWN = saved
    print('%d cases, %d failed' % (len(CASES), bad))
    return 1 if bad else 0


if __name__ == '__main__':
    sys.exit(main())
