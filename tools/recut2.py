#!/venv/bin/python
"""Re-cut stale bank patches across fix 01e00c6 at text level: old base (7101619) + patch, then the fix's three textual
substitutions wherever the old fragment is still intact in the patched file; the new patch is the diff against HEAD.
A fragment the patch itself rewrote is left as the patch wrote it (reported).  usage: recut2.py id [id ...]"""
import os, subprocess, sys, shutil, tempfile, json
def sh(cmd, cwd=None):
    p = subprocess.run(cmd, cwd=cwd, stdout=subprocess.PIPE, stderr=subprocess.STDOUT, text=True)
    return p.returncode, p.stdout
OLD = '7101619'
def fix_pairs():
    out = []
    for f in ('lomond/websocket.py', 'lomond/session.py'):
        a = sh(['git', '-C', '/repo', 'show', '%s:%s' % (OLD, f)])[1].splitlines(True)
        b = sh(['git', '-C', '/repo', 'show', 'HEAD:%s' % f])[1].splitlines(True)
        import difflib
        sm = difflib.SequenceMatcher(None, a, b, autojunk=False)
        for tag, i1, i2, j1, j2 in sm.get_opcodes():
            if tag != 'equal':
                # widen to whole changed region with one line of context on each side for uniqueness
                out.append((f, ''.join(a[max(0, i1 - 1):i2 + 1]), ''.join(b[max(0, j1 - 1):j2 + 1])))
    return out
PAIRS = fix_pairs()
for tid in sys.argv[1:]:
    d = '/verif/seeded/' + tid if os.path.isdir('/verif/seeded/' + tid) else '/verif/twins/' + tid
    wt = tempfile.mkdtemp(prefix='recut-', dir='/tmp'); os.rmdir(wt)
    sh(['git', '-C', '/repo', 'worktree', 'add', '-q', '--detach', wt, OLD])
    try:
        rc, out = sh(['git', 'apply', d + '/patch.diff'], cwd=wt)
        if rc != 0:
            print(tid, 'does not apply to', OLD); continue
        kept = []
        for (f, old, new) in PAIRS:
            p = os.path.join(wt, f)
            s = open(p).read()
            if s.count(old) == 1:
                open(p, 'w').write(s.replace(old, new))
            else:
                kept.append(f)
        sh(['git', 'add', '-A'], cwd=wt)
        rc, diff = sh(['git', 'diff', '--cached', 'HEAD' if False else sh(['git', '-C', '/repo', 'rev-parse', 'HEAD'])[1].strip(), '--', 'lomond'], cwd=wt)
        open(d + '/patch.diff', 'w').write(diff)
        mp = d + '/meta.json'
        m = json.load(open(mp)); m['recut_onto'] = '01e00c6 (text-level: fix fragments re-applied around the change%s)' % (
            '; fragment(s) in %s rewritten by the change itself were left as the change wrote them' % sorted(set(kept)) if kept else '')
        json.dump(m, open(mp, 'w'), indent=1)
        print(tid, 'recut', 'partial' if kept else 'full')
    finally:
        sh(['git', '-C', '/repo', 'worktree', 'remove', '--force', wt]); shutil.rmtree(wt, ignore_errors=True)
