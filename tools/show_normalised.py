#!/venv/bin/python
"""Debug aid: apply a twin / seeded patch to a scratch copy of /repo/lomond and print the normalised form of functions.
usage: tools/show_normalised.py <twin-or-seed id> <function qual> [...]"""
import sys, ast, os, shutil, subprocess, tempfile
sys.path.insert(0,'/verif')
from lomondsa.program import Program
tid=sys.argv[1]; qual=sys.argv[2]
d=tempfile.mkdtemp()
shutil.copytree('/repo/lomond', d+'/lomond')
src = '/verif/twins/%s/patch.diff'%tid if os.path.exists('/verif/twins/%s'%tid) else '/verif/seeded/%s/patch.diff'%tid
subprocess.check_call(['patch','-p1','-s','-i',src],cwd=d)
import warnings; warnings.simplefilter('ignore')
p=Program(d)
for l in p.inlined: print('#',l)
for q in sys.argv[2:]:
    print(ast.unparse(p.funcs[q].node))
shutil.rmtree(d)
