#!/venv/bin/python
"""Run the repository's pinned suite (guard off) and compare with BASELINE.json.

Exit 0 iff every test in BASELINE.stable_pass passes.  Usage:
    tools/baseline.py [--root /repo]
"""
import json, os, subprocess, sys, tempfile
import xml.etree.ElementTree as ET


def main():
    root = '/repo'
    if '--root' in sys.argv:
        root = sys.argv[sys.argv.index('--root') + 1]
    base = json.load(open('/root/.vp/BASELINE.json'))
    fd, path = tempfile.mkstemp(suffix='.xml')
    os.close(fd)
    env = dict(os.environ)
    env.pop('LOMOND_VERIF', None)
    try:
        # BASELINE_NETNS=1: private network namespace (the integration tests bind 127.0.0.1:8080 with reuse_port, so suites
        # running at the same time in other worktrees steal each other's connections)
        pre = ['unshare', '-rn', 'sh', '-c', 'ip link set lo up; exec "$@"', 'sh'] if os.environ.get('BASELINE_NETNS') else []
        subprocess.run(
            pre + ['flock', '/tmp/lomond-suite.lock', '/venv/bin/python', '-m', 'pytest', '-ra', '-q', '-p', 'no:cacheprovider',
             '--timeout=900', '--continue-on-collection-errors', '--junitxml=' + path],
            cwd=root, env=env, stdout=subprocess.DEVNULL, stderr=subprocess.DEVNULL)
        passed = set()
        for tc in ET.parse(path).getroot().iter('testcase'):
            bad = any(c.tag in ('failure', 'error', 'skipped') for c in tc)
            if not bad:
                passed.add('%s::%s' % (tc.get('classname'), tc.get('name')))
    finally:
        os.unlink(path)
    missing = [t for t in base['stable_pass'] if t not in passed]
    print('baseline stable=%d passed_now=%d missing=%d' % (len(base['stable_pass']), len(passed), len(missing)))
    for t in missing:
        print('  MISSING', t)
    return 1 if missing else 0


if __name__ == '__main__':
    sys.exit(main())
