#!/venv/bin/python
"""Run checkers against the mutant catalogue and the seeded changes (scratch copies, removed afterwards).

usage: tools/mutants.py [--props C03,C16] [--all-checks] [--only m16a,C16-s1] [--jobs 16]
For every mutant: copy /repo/lomond to a scratch dir, apply the edit, run ./check <prop> --root <scratch>.
Prints one line per mutant: id, property, expected (catch|twin), exit code, rules that fired.
"""
import json, os, re, shutil, subprocess, sys, tempfile
from concurrent.futures import ThreadPoolExecutor

VERIF = os.path.dirname(os.path.dirname(os.path.abspath(__file__)))
TWINS = {'m03d': {'C03'}, 'm08h': {'C08'}, 'm09h': {'C09'}}

def load():
    out = []
    for m in json.load(open(os.path.join(VERIF, 'design', 'mutant_catalogue.json'))):
        out.append({'id': m['id'], 'property': m['property'], 'kind': 'edit', 'file': m['file'], 'old': m['old'],
                    'new': m['new'], 'expected_rule': m.get('expected_rule', ''), 'note': m.get('note', '')})
    sd = os.path.join(VERIF, 'seeded')
    if os.path.isdir(sd):
        for d in sorted(os.listdir(sd)):
            mp = os.path.join(sd, d, 'meta.json')
            if os.path.exists(mp):
                meta = json.load(open(mp))
                out.append({'id': d, 'property': meta['property'], 'kind': 'patch', 'patch': os.path.join(sd, d, 'patch.diff'),
                            'expected_rule': '', 'note': ''})
    return out

def available_props():
    d = os.path.join(VERIF, 'lomondsa', 'rules')
    return sorted(f[:-3] for f in os.listdir(d) if re.match(r'C\d+\.py$', f))

def run_one(m, props, root='/repo'):
    scratch = tempfile.mkdtemp(prefix='mut-')
    try:
        shutil.copytree(os.path.join(root, 'lomond'), os.path.join(scratch, 'lomond'),
                        ignore=shutil.ignore_patterns('__pycache__'))
        if m['kind'] == 'edit':
            p = os.path.join(scratch, m['file'])
            s = open(p).read()
            if s.count(m['old']) != 1:
                return m, None, 'anchor absent'
            open(p, 'w').write(s.replace(m['old'], m['new']))
        else:
            r = subprocess.run(['patch', '-p1', '-s', '-i', m['patch']], cwd=scratch, stdout=subprocess.PIPE,
                               stderr=subprocess.STDOUT, text=True)
            if r.returncode != 0:
                return m, None, 'patch does not apply: ' + r.stdout[-200:]
        res = {}
        env = dict(os.environ, LOMOND_EVIDENCE_DIR=os.path.join(scratch, 'evidence'))
        for prop in props:
            r = subprocess.run([os.path.join(VERIF, 'check'), prop, '--root', scratch], cwd=VERIF, env=env,
                               stdout=subprocess.PIPE, stderr=subprocess.STDOUT, text=True)
            rules = sorted(set(re.findall(r'^\s+(C\d+\.\w+) ', r.stdout, re.M)))
            err = ''
            if r.returncode == 2:
                err = (re.findall(r'ANALYSIS-ERROR.*', r.stdout) or ['?'])[0][:160]
            res[prop] = (r.returncode, rules, err)
        return m, res, ''
    finally:
        shutil.rmtree(scratch, ignore_errors=True)

def main():
    args = sys.argv[1:]
    props = None; allchecks = False; only = None; jobs = 16
    i = 0
    while i < len(args):
        if args[i] == '--props': props = args[i+1].split(','); i += 2
        elif args[i] == '--all-checks': allchecks = True; i += 1
        elif args[i] == '--only': only = set(args[i+1].split(',')); i += 2
        elif args[i] == '--jobs': jobs = int(args[i+1]); i += 2
        else: print('bad arg', args[i]); return 2
    avail = available_props()
    muts = load()
    if only: muts = [m for m in muts if m['id'] in only]
    if props: muts = [m for m in muts if m['property'] in props]
    work = []
    for m in muts:
        ps = avail if allchecks else [p for p in [m['property']] if p in avail]
        if ps: work.append((m, ps))
    missed = noisy = errs = 0
    with ThreadPoolExecutor(jobs) as ex:
        for m, res, why in ex.map(lambda a: run_one(*a), work):
            if res is None:
                print('%-10s %-4s SKIP %s' % (m['id'], m['property'], why)); continue
            own = res.get(m['property'])
            twin = m['property'] in TWINS.get(m['id'], ())
            others = ' '.join('%s:%s' % (p, ','.join(r[1]) or ('ERR' if r[0] == 2 else '')) for p, r in sorted(res.items())
                              if p != m['property'] and r[0] != 0)
            if own is None:
                status = '-'
            elif own[0] == 2:
                status = 'ERROR'; errs += 1
            elif twin:
                status = 'twin-ok' if own[0] == 0 else 'TWIN-NOISY'; noisy += own[0] != 0
            else:
                status = 'caught' if own[0] == 1 else 'MISSED'; missed += own[0] != 1
            print('%-10s %-4s %-10s own=%s %s %s| expected %s %s' % (
                m['id'], m['property'], status, ','.join(own[1]) if own else '', own[2] if own else '',
                ('others: ' + others + ' ') if others else '', m['expected_rule'], m['note'][:50]))
    print('missed=%d noisy=%d errors=%d' % (missed, noisy, errs))
    return 0

if __name__ == '__main__':
    sys.exit(main())
