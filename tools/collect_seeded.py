#!/venv/bin/python
"""Confirm sub-agent seeded changes in a fresh scratch worktree and file them under /verif/seeded/.

usage: collect_seeded.py /tmp/wt/C05/_out/1 C05 [name]
Confirms: patch applies to a clean checkout of /repo HEAD; pinned suite still passes (missing=0);
demo exits 1 with the patch and 0 without.  Keeps the change only if all of that was observed here.
"""
import json, os, shutil, subprocess, sys, tempfile

def sh(cmd, cwd=None, timeout=600):
    p = subprocess.run(cmd, cwd=cwd, shell=isinstance(cmd, str), stdout=subprocess.PIPE, stderr=subprocess.STDOUT,
                       timeout=timeout, text=True)
    return p.returncode, p.stdout

def main():
    src, prop = sys.argv[1], sys.argv[2]
    name = sys.argv[3] if len(sys.argv) > 3 else '%s-s%s' % (prop, os.path.basename(src.rstrip('/')))
    dst = os.path.join('/verif/seeded', name)
    wt = tempfile.mkdtemp(prefix='confirm-', dir='/tmp')
    os.rmdir(wt)
    rc, out = sh(['git', '-C', '/repo', 'worktree', 'add', '-q', '--detach', wt, 'HEAD'])
    assert rc == 0, out
    ran = []
    try:
        patch = os.path.join(src, 'patch.diff')
        os.makedirs(os.path.join(wt, '_out', 'k'))
        shutil.copy(os.path.join(src, 'demo.py'), os.path.join(wt, '_out', 'k', 'demo.py'))
        rc, out = sh(['/venv/bin/python', '_out/k/demo.py'], cwd=wt, timeout=120)
        ran.append('clean: demo exit %d' % rc)
        if rc != 0:
            print(name, 'REJECT demo fails on clean tree', out[-300:]); return 1
        rc, out = sh(['git', 'apply', patch], cwd=wt)
        if rc != 0:
            print(name, 'REJECT patch does not apply', out[-300:]); return 1
        rc, out = sh(['/venv/bin/python', '/verif/tools/baseline.py', '--root', wt], timeout=900)
        ran.append('patched: suite ' + out.strip().splitlines()[0])
        if rc != 0:
            print(name, 'REJECT suite fails', out[-300:]); return 1
        rc, out = sh(['/venv/bin/python', '_out/k/demo.py'], cwd=wt, timeout=120)
        ran.append('patched: demo exit %d: %s' % (rc, (out.strip().splitlines() or [''])[-1][:200]))
        if rc == 0:
            print(name, 'REJECT demo passes with patch'); return 1
        os.makedirs(dst, exist_ok=True)
        shutil.copy(patch, os.path.join(dst, 'patch.diff'))
        shutil.copy(os.path.join(src, 'demo.py'), os.path.join(dst, 'demo.py'))
        notes = ''
        if os.path.exists(os.path.join(src, 'notes.md')):
            notes = open(os.path.join(src, 'notes.md')).read()
            shutil.copy(os.path.join(src, 'notes.md'), os.path.join(dst, 'notes.md'))
        head = sh(['git', '-C', '/repo', 'rev-parse', '--short', 'HEAD'])[1].strip()
        meta = {'id': name, 'property': prop, 'source': 'independent sub-agent given only the property text and a scratch worktree',
                'base_commit': head, 'needs_to_manifest': notes.strip()[:1500], 'confirmed': ran,
                'confirm_cmds': ['git apply patch.diff (fresh worktree of /repo HEAD)', '/verif/tools/baseline.py --root <wt>  -> missing=0',
                                 'python demo.py -> exit 1 with patch, exit 0 without'],
                'detected_by': None}
        json.dump(meta, open(os.path.join(dst, 'meta.json'), 'w'), indent=1)
        print(name, 'KEPT', '; '.join(ran))
        return 0
    finally:
        sh(['git', '-C', '/repo', 'worktree', 'remove', '--force', wt])
        shutil.rmtree(wt, ignore_errors=True)

if __name__ == '__main__':
    sys.exit(main())
