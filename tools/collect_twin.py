#!/venv/bin/python
"""Confirm a sub-agent twin (behaviour-preserving change) and file it under /verif/twins/.

usage: collect_twin.py /tmp/wt/TB/_out/1 T8B1 "round 8: ..."
Confirms: patch applies to a fresh worktree of /repo HEAD and the pinned suite still passes (missing=0, private netns)."""
import json, os, shutil, subprocess, sys, tempfile

def sh(cmd, cwd=None, timeout=900, env=None):
    p = subprocess.run(cmd, cwd=cwd, stdout=subprocess.PIPE, stderr=subprocess.STDOUT, timeout=timeout, text=True, env=env)
    return p.returncode, p.stdout

def main():
    src, name = sys.argv[1], sys.argv[2]
    kind = sys.argv[3] if len(sys.argv) > 3 else ''
    wt = tempfile.mkdtemp(prefix='twinc-', dir='/tmp'); os.rmdir(wt)
    rc, out = sh(['git', '-C', '/repo', 'worktree', 'add', '-q', '--detach', wt, 'HEAD']); assert rc == 0, out
    try:
        rc, out = sh(['git', 'apply', os.path.join(src, 'patch.diff')], cwd=wt)
        if rc != 0:
            print(name, 'REJECT patch does not apply', out[-200:]); return 1
        rc, out = sh(['/venv/bin/python', '/verif/tools/baseline.py', '--root', wt], env=dict(os.environ, BASELINE_NETNS='1'))
        if rc != 0:
            print(name, 'REJECT suite', out[-300:]); return 1
        dst = os.path.join('/verif/twins', name)
        os.makedirs(dst, exist_ok=True)
        shutil.copy(os.path.join(src, 'patch.diff'), dst)
        if os.path.exists(os.path.join(src, 'notes.md')):
            shutil.copy(os.path.join(src, 'notes.md'), dst)
        head = sh(['git', '-C', '/repo', 'rev-parse', '--short', 'HEAD'])[1].strip()
        json.dump({'id': name, 'kind': 'behaviour-preserving edit (twin, %s)' % kind,
                   'source': 'independent sub-agent asked for semantics-preserving edits; suite passes (missing=0)',
                   'base_commit': head, 'expected': 'every check exits 0'}, open(os.path.join(dst, 'meta.json'), 'w'), indent=1)
        print(name, 'KEPT', out.strip().splitlines()[0])
        return 0
    finally:
        sh(['git', '-C', '/repo', 'worktree', 'remove', '--force', wt]); shutil.rmtree(wt, ignore_errors=True)

if __name__ == '__main__':
    sys.exit(main())
