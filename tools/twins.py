#!/venv/bin/python
"""Run every check against behaviour-preserving refactorings (twins): any VIOLATION is a false alarm.

usage: tools/twins.py [dir-with-twins (default /verif/twins)] [--only id,id]
A twin is <dir>/<id>/patch.diff.  Prints, per twin, the checks that did not exit 0."""
import os, re, shutil, subprocess, sys, tempfile
from concurrent.futures import ThreadPoolExecutor
VERIF = os.path.dirname(os.path.dirname(os.path.abspath(__file__)))

def props():
    d = os.path.join(VERIF, 'lomondsa', 'rules')
    return sorted(f[:-3] for f in os.listdir(d) if re.match(r'C\d+\.py$', f))

def run_one(args):
    tid, patch = args
    scratch = tempfile.mkdtemp(prefix='twin-')
    try:
        shutil.copytree('/repo/lomond', os.path.join(scratch, 'lomond'), ignore=shutil.ignore_patterns('__pycache__'))
        r = subprocess.run(['patch', '-p1', '-s', '--no-backup-if-mismatch', '-i', patch], cwd=scratch, stdout=subprocess.PIPE,
                           stderr=subprocess.STDOUT, text=True)
        if r.returncode != 0:
            return tid, [('patch', 'does not apply')]
        env = dict(os.environ, LOMOND_EVIDENCE_DIR=os.path.join(scratch, 'evidence'))
        bad = []
        for p in props():
            r = subprocess.run([os.path.join(VERIF, 'check'), p, '--root', scratch], cwd=VERIF, env=env, stdout=subprocess.PIPE,
                               stderr=subprocess.STDOUT, text=True)
            if r.returncode == 1:
                for ln in r.stdout.splitlines():
                    if re.match(r'\s+C\d+\.\w+ ', ln):
                        bad.append((p, 'VIOLATION ' + ln.strip()[:230]))
            elif r.returncode == 2:
                bad.append((p, (re.findall(r'ANALYSIS-ERROR.*', r.stdout) or ['ERROR'])[0][:230]))
        return tid, bad
    finally:
        shutil.rmtree(scratch, ignore_errors=True)

def main():
    argv = sys.argv[1:]
    only = None
    if '--only' in argv:
        i = argv.index('--only')
        only = set(argv[i + 1].split(','))
        del argv[i:i + 2]
    args = [a for a in argv if not a.startswith('--')]
    roots = args or [os.path.join(VERIF, 'twins')]
    work = []
    for root in roots:
        for dirpath, dirnames, filenames in os.walk(root):
            if 'patch.diff' in filenames:
                tid = os.path.relpath(dirpath, root).replace('/_out/', '-').replace('/', '-')
                if root != os.path.join(VERIF, 'twins'):
                    tid = os.path.basename(os.path.dirname(os.path.dirname(dirpath))) + os.path.basename(dirpath) if '_out' in dirpath else tid
                if only and tid not in only:
                    continue
                work.append((tid, os.path.join(dirpath, 'patch.diff')))
    work.sort()
    nv = ne = 0
    with ThreadPoolExecutor(16) as ex:
        for tid, bad in ex.map(run_one, work):
            if not bad:
                print('%-8s ok' % tid)
            for (p, msg) in bad:
                print('%-8s %s %s' % (tid, p, msg))
                nv += msg.startswith('VIOLATION'); ne += not msg.startswith('VIOLATION')
    print('twins=%d false_alarm_lines=%d analysis_errors=%d' % (len(work), nv, ne))

if __name__ == '__main__':
    main()
