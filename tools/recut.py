#!/venv/bin/python
"""Re-cut bank patches (seeded/, twins/) that no longer apply to /repo HEAD after a `fix:` commit: apply the patch to its old base,
commit, cherry-pick the commits base..HEAD on top, and take the diff against HEAD.  usage: recut.py <old-base> id [id ...]"""
import os, subprocess, sys, shutil, tempfile, json
def sh(cmd, cwd=None):
    p = subprocess.run(cmd, cwd=cwd, stdout=subprocess.PIPE, stderr=subprocess.STDOUT, text=True)
    return p.returncode, p.stdout
base = sys.argv[1]
head = sh(['git', '-C', '/repo', 'rev-parse', '--short', 'HEAD'])[1].strip()
for tid in sys.argv[2:]:
    d = '/verif/seeded/' + tid if os.path.isdir('/verif/seeded/' + tid) else '/verif/twins/' + tid
    wt = tempfile.mkdtemp(prefix='recut-', dir='/tmp'); os.rmdir(wt)
    sh(['git', '-C', '/repo', 'worktree', 'add', '-q', '--detach', wt, 'HEAD'])
    try:
        # the other way round: the fix is already in HEAD; apply the patch with a 3-way merge
        rc, out = sh(['git', 'apply', '--3way', d + '/patch.diff'], cwd=wt)
        conflict = rc != 0 or bool(sh(['git', 'diff', '--name-only', '--diff-filter=U'], cwd=wt)[1].strip())
        if conflict:
            print(tid, 'CONFLICT'); continue
        rc, diff = sh(['git', 'diff', 'HEAD', '--', 'lomond'], cwd=wt)
        if not diff.strip():
            print(tid, 'EMPTY'); continue
        open(d + '/patch.diff', 'w').write(diff)
        mp = d + '/meta.json'
        if os.path.exists(mp):
            m = json.load(open(mp)); m['recut_onto'] = head; json.dump(m, open(mp, 'w'), indent=1)
        print(tid, 'recut')
    finally:
        sh(['git', '-C', '/repo', 'worktree', 'remove', '--force', wt]); shutil.rmtree(wt, ignore_errors=True)
