#!/venv/bin/python
"""Regenerate /verif/MANIFEST.json from the rule modules present (metadata lives in each module)."""
import importlib, json, os, re, sys
VERIF = os.path.dirname(os.path.dirname(os.path.abspath(__file__)))
sys.path.insert(0, VERIF)
props = [json.loads(l) for l in open(os.path.join(VERIF, 'properties.jsonl'))]
mods = {}
for fn in sorted(os.listdir(os.path.join(VERIF, 'lomondsa', 'rules'))):
    m = re.match(r'(C\d+)\.py$', fn)
    if m:
        mods[m.group(1)] = importlib.import_module('lomondsa.rules.' + m.group(1))
NA = {}
na_path = os.path.join(VERIF, 'design', 'not_applicable.json')
if os.path.exists(na_path):
    NA = json.load(open(na_path))
checks = []
for p in props:
    pid = p['id']
    if pid not in mods or pid in NA:
        continue
    m = mods[pid]
    src = open(os.path.join(VERIF, 'lomondsa', 'rules', pid + '.py')).read()
    rule_ids = sorted(set(re.findall(r"R\.rule\('(%s\.\w+)'" % pid, src)))
    checks.append({
        'property_id': pid,
        'quick_cmd': './check %s --tier quick' % pid,
        'thorough_cmd': './check %s --tier thorough' % pid,
        'evidence_file': 'evidence/%s.json' % pid,
        'replay_cmd_template': './check %s --replay {path}' % pid,
        'engine': 'lomondsa',
        'level_claimed': {'category': getattr(m, 'LEVEL', 'other'),
                          'text': m.EXPLANATION + ' Rule families evaluated on every run (each with its instances listed in the '
                                  'evidence file; families shared with other properties run under this property\'s ids): '
                                  + ', '.join(rule_ids) + '. NOT decided: ' + getattr(m, 'NOT_DECIDED', ''),
                          'design_ref': 'DESIGN.md section 3, ' + pid},
        'level_note': 'Trusted: CPython ast; lomondsa CFG/exception-edge/type-propagation construction; the external '
                      'may-raise table. Assumed: ' + '; '.join(getattr(m, 'ASSUMPTIONS', [])),
        'technique': getattr(m, 'TECHNIQUE', 'static analysis: repository-specific AST/CFG rules (dominance, '
                             'must-pass-through, who-may-write, def-use provenance, constant folding)'),
    })
not_app = []
for p in props:
    pid = p['id']
    if pid in NA:
        not_app.append({'property_id': pid, 'reason': NA[pid]})
    elif pid not in mods:
        not_app.append({'property_id': pid, 'reason': 'checker under construction in this session (see DESIGN.md section 3)'})
man = {
    'version': 1,
    'setup_cmd': '/venv/bin/python -m compileall -q lomondsa',
    'hooks': {'guard': 'LOMOND_VERIF', 'enable': 'none needed: the checks are static and never execute /repo; no hook commits exist',
              'baseline_off_cmd': '/verif/tools/baseline.py', 'source_commits': [], 'add_only': True},
    'engines': [{'name': 'lomondsa', 'path': 'lomondsa/', 'serves_properties': [c['property_id'] for c in checks],
                 'kind_free_text': 'repository-specific static analyser over Python ast: whole-package type propagation and '
                                   'call resolution, statement CFGs with exception and GeneratorExit edges, dominators, '
                                   'reaching definitions, exception-flow, constant/interval evaluation'}],
    'checks': checks,
    'notes': 'Static analysis only. Every check parses /repo/lomond afresh, never imports or runs it. Exit 0 pass / 1 VIOLATION / '
             '2 ANALYSIS-ERROR. Known findings: known_findings.json. Seeded changes used to validate the checks: seeded/.',
    'not_applicable': not_app,
}
json.dump(man, open(os.path.join(VERIF, 'MANIFEST.json'), 'w'), indent=1)
print('checks:', [c['property_id'] for c in checks], 'not_applicable:', [n['property_id'] for n in not_app])
